#!/bin/sh
# Builds the framework offline from files on disk: the driver in both profiles, the getrandom shim, the corpus.
set -e
cd "$(dirname "$0")"
export CARGO_NET_OFFLINE=true
python3 tools/extract_corpus.py
python3 - <<'PY'
import sys, os
sys.path.insert(0, os.getcwd())
from vlib import common
common.build(("rel", "dev"))
print("driver built:", common.driver_path("rel"), common.driver_path("dev"))
PY
python3 -c "import sys; sys.path.insert(0,'.'); from vlib import keccak; keccak.selftest(); keccak.slot_hash_table()"
