#!/usr/bin/env python3
"""tools/mk_mutant_prompt.py <round-tag> <ID>... : for each property creates a scratch worktree /tmp/w<tag>-<ID> of
/repo HEAD and writes the sub-agent prompt /tmp/prompt<tag>-<ID>.txt. The prompt contains only the property's text and
one-line names of earlier regressions for that property (so that the new one is different); nothing from /verif."""
import glob
import json
import os
import subprocess
import sys

tag = sys.argv[1]
ids = sys.argv[2:]
props = {}
for line in open("/verif/properties.jsonl"):
    p = json.loads(line)
    props[p["id"]] = p

TEMPLATE = """You are helping to evaluate a verification effort by playing the role of a developer who introduces a subtle regression.

Repository: a Rust library (smlxl/storage-layout-extractor: disassembles EVM bytecode, symbolically executes it, runs lifting passes and unification-based type inference to recover contract storage layouts). Your private scratch copy (a git worktree) is at {wt}. Work ONLY inside {wt} (do not read or touch /repo, /verif or any other /tmp/w* directory; do not look for existing verification tooling anywhere).

The property you must break:

  id: {id}
  title: {title}
  statement: {statement}
  quantifier: {quant}
  anchored in files: {files}
  mechanisms: {mech}

Your task: produce ONE small, realistic source change to the library (under {wt}/src) that makes this property false, while
  (a) the library still compiles without new warnings-as-errors, and
  (b) the repository's whole existing test suite still passes with your change. Run it with:
        cd {wt} && CARGO_TARGET_DIR={wt}/target cargo test --workspace --no-fail-fast --offline 2>&1 | tail -40
      (about 1-2 minutes; there is no network, always pass --offline). All tests must pass; if one fails, choose a different change. Run the suite at least twice (hash iteration order varies between runs).
  (c) It must be the kind of bug a real developer could plausibly introduce (an off-by-one, a wrong comparison, a dropped guard, a swapped operand, a refactoring slip, a missed case, a truncating conversion, a cache keyed on the wrong thing ...), NOT something that ordinary use would expose at once. Prefer a change that needs something specific to manifest: an unusual input, a boundary value, a multi-step sequence of operations, a particular configuration, a particular iteration order, or two cooperating sites that each look fine alone.
  (d) Do not edit, delete or add files under tests/ or any #[cfg(test)] module, and do not touch anything guarded by #[cfg(smlxl_storage_layout_extractor_verif)] or src/verif.rs.
  (e) Never use pkill / killall or kill processes you did not start; other people are working on this machine.

Then write a demonstration: a small Rust integration test file at {wt}/demo/demo_{lid}.rs (to be copied into tests/ when run) that FAILS with your change applied and PASSES on the original code. Verify both directions yourself (use `git diff > {wt}/demo/patch.diff && git checkout -- src` to switch, `git apply demo/patch.diff` to switch back), by temporarily copying the demo into tests/, running `CARGO_TARGET_DIR={wt}/target cargo test --offline --test demo_{lid}`, and removing it from tests/ again afterwards.

Deliverables (leave them in {wt}/demo/):
  - patch.diff : `git diff` of your source change against HEAD (only files under src/), applicable with `git apply`
  - demo_{lid}.rs
  - NOTES.md : which property it breaks, what exactly is needed for the bug to manifest (input / configuration / sequence), the exact commands you ran and their outcomes (test suite with the change: pass; demo with the change: fail; demo without the change: pass).
Leave the worktree with your change APPLIED to src/ and no demo file inside tests/. In your final answer, summarise the change in 5-10 lines and state the three verification outcomes.
{earlier}"""

for i in ids:
    p = props[i]
    wt = "/tmp/w%s-%s" % (tag, i)
    if not os.path.exists(wt):
        subprocess.check_call(["git", "-C", "/repo", "worktree", "add", "-q", "--detach", wt, "HEAD"])
        subprocess.check_call(["cp", "/repo/Cargo.lock", wt + "/"])
    os.makedirs(wt + "/demo", exist_ok=True)
    names = []
    for d in sorted(glob.glob("/verif/seeded/%s*" % i)):
        base = os.path.basename(d)
        if "-" in base and base.split("-")[0].rstrip("abcdefghijklmnopqrstuvwxyz") == i:
            names.append(base.split("-", 1)[1].replace("-", " "))
    earlier = ""
    if names:
        earlier = ("\n\nIMPORTANT - other developers have already produced regressions along these lines for this property: "
                   + "; ".join('"%s"' % n for n in names)
                   + ". Yours must be a clearly DIFFERENT change: different function/site and different mechanism from all of "
                     "them. Aim for a place in the code that is anchored to this property but that those attempts did not "
                     "touch, and for a trigger that a test generator which only tries 'obvious' shapes and boundary values "
                     "would be unlikely to hit (an unusual opcode, an unusual combination of features, a rarely used "
                     "configuration field, an interaction between two stages of the pipeline...).")
    text = TEMPLATE.format(wt=wt, id=i, lid=i.lower(), title=p["title"], statement=p["statement"],
                           quant=p["quantifier"]["text"], files=", ".join(p["anchors"]["files"]),
                           mech=json.dumps(p["anchors"]["mechanism"]), earlier=earlier)
    open("/tmp/prompt%s-%s.txt" % (tag, i), "w").write(text)
    print(i, wt, len(names), "earlier")
