#!/bin/bash
# tools/confirm_mutant.sh <ID> : confirms, in the agent's scratch worktree /tmp/wt-<ID>, that (1) the patch applies to a
# clean HEAD, (2) the whole existing suite passes with it, (3) the demo fails with it, (4) the demo passes without it.
ID=$1; WT=${2:-/tmp/wt-$ID}; L=$(echo $ID | tr A-Z a-z)
cd $WT || exit 2
export CARGO_TARGET_DIR=$WT/target CARGO_NET_OFFLINE=true
git checkout -q -- src && git apply --check demo/patch.diff || { echo "$ID patch-does-not-apply"; exit 1; }
cp demo/demo_$L.rs tests/demo_$L.rs
cargo test --offline --test demo_$L > demo/confirm_without.log 2>&1; W=$?
git apply demo/patch.diff
cargo test --offline --test demo_$L > demo/confirm_with.log 2>&1; X=$?
rm -f tests/demo_$L.rs
cargo test --workspace --no-fail-fast --offline > demo/confirm_suite.log 2>&1; S=$?
FAILED=$(grep -c "^test .* FAILED" demo/confirm_suite.log)
echo "$ID demo_without_exit=$W demo_with_exit=$X suite_exit=$S suite_failed_tests=$FAILED"
