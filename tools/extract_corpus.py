#!/usr/bin/env python3
"""Extracts the deployed bytecodes embedded in /repo/tests/*.rs and /repo/asset/*.json into /verif/corpus/*.hex."""
import glob, json, os, re, sys
REPO = os.environ.get("VERIF_REPO", "/repo")
OUT = os.path.join(os.path.dirname(os.path.dirname(os.path.abspath(__file__))), "corpus")
os.makedirs(OUT, exist_ok=True)
n = 0
for path in sorted(glob.glob(os.path.join(REPO, "tests", "*.rs"))):
    src = open(path).read()
    best = ""
    for m in re.finditer(r'"(0x)?([0-9a-fA-F]{200,})"', src):
        if len(m.group(2)) > len(best):
            best = m.group(2)
    if best and len(best) % 2 == 0:
        name = os.path.basename(path)[:-3]
        open(os.path.join(OUT, name + ".hex"), "w").write(best.lower() + "\n")
        n += 1
for path in sorted(glob.glob(os.path.join(REPO, "asset", "*.json"))):
    try:
        obj = json.load(open(path))
        code = obj["deployedBytecode"]["object"]
        code = code[2:] if code.startswith("0x") else code
        if re.fullmatch(r"[0-9a-fA-F]+", code) and len(code) % 2 == 0:
            open(os.path.join(OUT, "asset_" + os.path.basename(path)[:-5] + ".hex"), "w").write(code.lower() + "\n")
            n += 1
    except Exception as e:
        pass
print("extracted", n, "bytecodes to", OUT)
