#!/usr/bin/env python3
"""tools/add_finding.py <property> <status known|fixed> <signature> <commit|-> <what...>  - edits known_findings.json (never run by checks)."""
import json, sys, os
p = os.path.join(os.path.dirname(os.path.dirname(os.path.abspath(__file__))), "known_findings.json")
prop, status, sig, commit = sys.argv[1:5]
what = " ".join(sys.argv[5:])
k = json.load(open(p))
e = {"property": prop, "status": status, "signature": sig}
if commit != "-":
    e["commit"] = commit
    what = "fixed: property=%s %s %s" % (prop, commit, what) if status == "fixed" else what
e["what"] = what
k["findings"] = [f for f in k["findings"] if not (f["property"] == prop and f["signature"] == sig)] + [e]
json.dump(k, open(p, "w"), indent=1)
