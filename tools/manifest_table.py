chk("C09", "runtime monitoring: differential oracle (reference folder + tree evaluator) over generated trees",
    "Every tree is folded by the real constant_fold in both build profiles and compared structurally with an independent reference folder and semantically under 5 valuations; exhaustive over operator x boundary-operand pairs, sampled for random trees. Held-on-what-was-run, not a proof.",
    "Trusts vlib/treeeval.py (Python big-int EVM arithmetic) and the JSON tree encoding in harness/src/tree.rs.", "DESIGN.md 4/C09")
chk("C10", "runtime monitoring: differential oracle (reference disassembler) over enumerated and random byte strings",
    "All byte strings of length 1-2 exhaustively, every opcode x truncation, random strings to 24 KiB and truncated real contracts are disassembled by the real code in both profiles; length, re-encoding and per-offset kinds are compared with an independent disassembler.",
    "Trusts the Shanghai opcode table in vlib/evm.py.", "DESIGN.md 4/C10")
chk("C16", "runtime monitoring: exhaustive algebraic-law checking of the real merge over a finite evidence domain",
    "All ordered pairs and triples over the evidence domain of the quantifier are merged by the real unification::merge; normalised outcomes are compared for symmetry and associativity. Exhaustive for the domain; 34 shape classes of non-associativity are recorded as known findings keyed on exact triples.",
    "Trusts the normalisation in checks/c16.py as the equivalence the property states.", "DESIGN.md 4/C16")
chk("C19", "runtime monitoring: lock-step reference models over exhaustively enumerated and random operation histories",
    "Every operation of every history (all sequences up to the stated length over 4 elements; random to length 400 over 64) is applied to the real DisjointSet / VectorMap and to naive models; a clone of the real structure is interrogated through its public API after each step. Both profiles.",
    "Trusts the naive models in harness/src/ds.rs; touching a never-inserted element is modelled as inserting it.", "DESIGN.md 4/C19")
chk("C20", "runtime monitoring: round-trip oracle with an independent decimal/hex cross-check over generated layout entries",
    "Seeded generator over every AbiType variant nested to depth 5 and boundary/random 256-bit indices; each entry is serialised, deserialised and re-serialised by the real serde implementations; equality, text equality, index format and index value (against ethnum's decimal Display) are checked.",
    "Trusts serde_json and Python's int parsing.", "DESIGN.md 4/C20")

chk("C07", "runtime monitoring: differential oracle (concrete reference EVM with path enumeration + tree evaluator) over generated programs",
    "Generated all-constant, loop-free, stack-safe programs are executed by the real symbolic VM; every stored end state (stack at all depths, memory words, per-key ordered storage generations) is evaluated with EVM word semantics and compared with the matching path of an independent concrete EVM that follows both outcomes of every JUMPI. Two deviations (SIGNEXTEND roles, BYTE index wrap) are recorded as known findings and recognised only when the state equals the reference with exactly that deviation switched on.",
    "Trusts vlib/evmref.py, vlib/treeeval.py; ADDMOD/MULMOD Modulo nodes are read as the wide operation; initial storage/memory are zero.", "DESIGN.md 4/C07")
chk("C08", "runtime monitoring: executed-offset sets of every stored state compared with a reference control-flow exploration",
    "Programs with constant jump targets of every kind (valid, in push data, non-JUMPDEST, out of range, >=2^32 with valid low bits, computed) and dead code behind bad jumps and halting instructions run through the real VM; per-state visit counters are read through the public API and compared with the reachable set and path set of the reference EVM; canary slots written only in dead code must not reach the layout.",
    "Trusts vlib/evmref.py as the EVM control-flow graph; loop-free programs within the default limits.", "DESIGN.md 4/C08")
