#!/bin/bash
# tools/try_mutant.sh <patch> <check-id>... : runs the given quick checks against a seeded change.
# By default in isolation: a scratch worktree of /repo HEAD (under /tmp) gets the patch, a copy of the harness is
# pointed at it, and evidence / replay files go to a scratch directory - so /repo, /verif/evidence and any check running
# concurrently are untouched. With IN_PLACE=1 the patch is applied to /repo itself and undone afterwards
# (git -C /repo apply; ./check; git -C /repo checkout -- .), which is what the isolated mode is equivalent to.
P=$(readlink -f "$1"); shift
if [ -n "$IN_PLACE" ]; then
  cd /repo && git diff --quiet || { echo "/repo is dirty"; exit 2; }
  git -C /repo apply "$P" 2>/dev/null || git -C /repo apply --3way "$P" || { echo "patch does not apply"; git -C /repo checkout -- .; exit 2; }
  git -C /repo reset -q
  cd /verif
  for c in "$@"; do ./check $c --tier ${TIER:-quick}; done
  git -C /repo checkout -- .
  python3 -c "import sys; sys.path.insert(0, '/verif'); from vlib import common; common.build(('rel', 'dev'))"
  exit 0
fi
S=/tmp/mutant-$$
mkdir -p $S/out
git -C /repo worktree add -q --detach $S/repo HEAD || exit 2
cp /repo/Cargo.lock $S/repo/
( cd $S/repo && { git apply "$P" 2>/dev/null || git apply --3way "$P"; } ) || { echo "patch does not apply"; git -C /repo worktree remove --force $S/repo; rm -rf $S; exit 2; }
mkdir -p $S/harness && cp -r /verif/harness/src /verif/harness/shim.c /verif/harness/Cargo.lock $S/harness/
sed "s#path = \"/repo\"#path = \"$S/repo\"#" /verif/harness/Cargo.toml > $S/harness/Cargo.toml
cd /verif
for c in "$@"; do
  out=$(VERIF_HARNESS=$S/harness VERIF_TARGET=$S/target VERIF_OUT=$S/out ./check $c --tier ${TIER:-quick} 2>&1)
  code=$?
  echo "== $c exit=$code: $(echo "$out" | grep -c '^VIOLATION') violation lines"
  echo "$out" | grep -A1 '^VIOLATION' | grep -v '^--' | cut -c1-260 | head -8
  echo "$out" | tail -1 | cut -c1-200
done
git -C /repo worktree remove --force $S/repo
git -C /repo worktree prune
rm -rf $S
