#!/bin/bash
# tools/try_mutant.sh <patch> <check-id>... : applies a patch to /repo, runs the given quick checks, and undoes it.
P=$1; shift
cd /repo && git diff --quiet || { echo "/repo is dirty"; exit 2; }
git -C /repo apply "$P" 2>/dev/null || git -C /repo apply --3way "$P" || { echo "patch does not apply"; git -C /repo checkout -- .; exit 2; }
git -C /repo reset -q
cd /verif
for c in "$@"; do
  out=$(./check $c --tier ${TIER:-quick} 2>&1)
  code=$?
  echo "== $c exit=$code: $(echo "$out" | grep -c '^VIOLATION') violation lines"
  echo "$out" | grep -A1 '^VIOLATION' | grep -v '^--' | cut -c1-260 | head -8
  echo "$out" | tail -1 | cut -c1-200
done
git -C /repo checkout -- .
# leave no driver built from the patched tree behind
python3 -c "import sys; sys.path.insert(0, '/verif'); from vlib import common; common.build(('rel', 'dev'))"
