#!/usr/bin/env python3
"""Generates MANIFEST.json from the table below (kept in one place so that it stays valid)."""
import json, os, subprocess
V = os.path.dirname(os.path.dirname(os.path.abspath(__file__)))
props = [json.loads(l) for l in open(os.path.join(V, "properties.jsonl"))]
CHECKS = {}
def chk(pid, technique, text, note, design_ref, category="exploration"):
    CHECKS[pid] = dict(technique=technique, text=text, note=note, design_ref=design_ref, category=category)

exec(open(os.path.join(V, "tools", "manifest_table.py")).read())

hooks_commits = subprocess.check_output(["git", "-C", "/repo", "log", "--format=%H %s"]).decode().splitlines()
hook_shas = [l.split()[0] for l in hooks_commits if "verif hooks" in l or "verif hook" in l]
m = {
    "version": 1,
    "setup_cmd": "./setup.sh",
    "hooks": {
        "guard": "smlxl_storage_layout_extractor_verif",
        "enable": "RUSTFLAGS=\"--cfg smlxl_storage_layout_extractor_verif\" cargo build (harness/ has a path dependency on /repo; vlib/common.py:build passes the flag explicitly)",
        "baseline_off_cmd": "cd /repo && cargo nextest run --workspace --no-fail-fast --tool-config-file pb:/w/lib/nextest.toml --profile pb --test-threads 8 --offline",
        "source_commits": hook_shas,
        "add_only": True,
    },
    "engines": [
        {"name": "slx-driver", "path": "harness/", "serves_properties": sorted(CHECKS),
         "kind_free_text": "Rust JSONL driver around the real public API of the library, built with the hook cfg; installs the in-process monitor (harness/src/mon.rs), the poll-logging watchdog and the lock-step reference models (harness/src/ds.rs)"},
        {"name": "python monitors", "path": "checks/ vlib/", "serves_properties": sorted(CHECKS),
         "kind_free_text": "workload generators, independent reference models (EVM interpreter, tree evaluator, disassembler, keccak, union-find/lattice) and offline checkers over the driver's observations"},
        {"name": "getrandom shim", "path": "harness/shim.c", "serves_properties": ["C02", "C11", "C13"],
         "kind_free_text": "LD_PRELOAD interposer that makes HashMap seeds and UUIDs a function of a per-request seed, so hash iteration orders are an explicit, replayable input"},
    ],
    "checks": [],
    "not_applicable": [],
    "notes": "Technique family: runtime monitoring and sanitizers. Every check observes executions of the real library code built from /repo's working tree; see DESIGN.md. Exit code 2 = harness failure (neither held nor violated).",
}
for p in props:
    pid = p["id"]
    if pid in CHECKS:
        c = CHECKS[pid]
        m["checks"].append({
            "property_id": pid,
            "quick_cmd": "./check %s --tier quick" % pid,
            "thorough_cmd": "./check %s --tier thorough" % pid,
            "evidence_file": "evidence/%s.json" % pid,
            "replay_cmd_template": "./check %s --replay {path}" % pid,
            "engine": "slx-driver",
            "level_claimed": {"category": c["category"], "text": c["text"], "design_ref": c["design_ref"]},
            "level_note": c["note"],
            "technique": c["technique"],
        })
    else:
        m["not_applicable"].append({"property_id": pid, "reason": "check not built yet in this session (planned; see DESIGN.md section 4)"})
json.dump(m, open(os.path.join(V, "MANIFEST.json"), "w"), indent=1)
print("checks:", len(m["checks"]), "not_applicable:", len(m["not_applicable"]))
