#!/usr/bin/env python3
"""tools/thorough_table.py <log>... : prints a markdown table of the last thorough result per check found in the given
`vp run` logs (used for DESIGN.md; the logs themselves are not part of /verif)."""
import re, sys
rows = {}
for p in sys.argv[1:]:
    seed = None
    for line in open(p, errors="replace"):
        m = re.match(r"(C\d\d) thorough: (held on everything explored|VIOLATED); evaluations=(\d+) judged=(\d+) distinct_nontrivial=(\d+) inconclusive=(\{.*?\}) known_hits=(\d+) wall=([\d.]+)s", line)
        if m:
            rows[m.group(1)] = (p, m.groups())
print("| check | verdict | evaluations | judged | distinct non-trivial | inconclusive | known-finding hits | wall |")
print("|---|---|---|---|---|---|---|---|")
for c in sorted(rows):
    p, g = rows[c]
    print("| %s | %s | %s | %s | %s | %s | %s | %.0f s |" % (c, "held" if g[1].startswith("held") else "VIOLATED (see section 5)", g[2], g[3], g[4], g[5] if g[5] != "{}" else "-", g[6], float(g[7])))
