#!/bin/bash
# tools/sweep.sh [tier] seed... : runs every check at the given VERIF_SEED values; evidence and replay files go to a
# scratch directory (VERIF_OUT) so that /verif/evidence keeps the default-seed results. Prints one line per run.
TIER=${1:-quick}; shift
cd /verif
python3 -c "import sys; sys.path.insert(0, '/verif'); from vlib import common; common.build(('rel', 'dev'))" >/dev/null 2>&1
for sd in "$@"; do
  for c in C01 C02 C03 C04 C05 C06 C07 C08 C09 C10 C11 C12 C13 C14 C15 C16 C17 C18 C19 C20; do
    out=$(VERIF_OUT=/tmp/sweep-out VERIF_SEED=$sd ./check $c --tier $TIER --no-build 2>&1); code=$?
    echo "seed=$sd $c exit=$code violations=$(echo "$out" | grep -c '^VIOLATION') :: $(echo "$out" | grep -A1 '^VIOLATION' | grep signature | head -3 | cut -c1-160 | tr '\n' ' ') $(echo "$out" | tail -1 | grep -o 'inconclusive={[^}]*}' | cut -c1-120)"
  done
done
