#!/bin/bash
# tools/regress_seeded.sh [jobs] : applies every archived seeded change (in isolation, see try_mutant.sh) and runs
# the quick check of its property; prints one line per change. Every line should say exit=1 (caught), except the two
# (max_hits = largest number of cases behind one violation signature: a catch with very few hits is fragile.)
# changes that later repairs of /repo mask (C12-subword-bound..., C12b-...; their meta.json says so).
J=${1:-3}
cd /verif
ls seeded | xargs -P $J -I{} sh -c 'id={}; prop=$(python3 -c "import json;print(json.load(open(\"seeded/$id/meta.json\"))[\"property\"])"); full=$(tools/try_mutant.sh seeded/$id/patch.diff $prop 2>&1); out=$(echo "$full" | grep "^== "); hits=$(echo "$full" | grep -o "count=[0-9]*" | cut -d= -f2 | sort -n | tail -1); echo "$id $out max_hits=${hits:-0}"'
