#!/usr/bin/env python3
"""Regenerates the generated tables of DESIGN.md (repaired defects from /repo's git log, seeded changes from seeded/*/meta.json)."""
import glob, json, os, re, subprocess
V = os.path.dirname(os.path.dirname(os.path.abspath(__file__)))
p = os.path.join(V, "DESIGN.md")
s = open(p).read()
log = subprocess.check_output(["git", "-C", "/repo", "log", "--format=%h %s"]).decode().splitlines()
fixes = [l for l in log if " fix:" in l]
rows = "\n".join("| `%s` | %s |" % (l.split()[0], " ".join(l.split()[1:])[5:]) for l in reversed(fixes))
head = "| commit | what failed |\n|---|---|\n"
a = s.index(head) + len(head)
b = s.index("\n\nFound by: VectorMap")
s = s[:a] + rows + s[b:]
s = re.sub(r"its check before being touched\. \d+ were repaired", "its check before being touched. %d were repaired" % len(fixes), s)
rows = []
missed = []
for f in sorted(glob.glob(os.path.join(V, "seeded", "*", "meta.json"))):
    m = json.load(open(f))
    rows.append("| `%s` | %s | %s | %s |" % (m["id"], m["property"], m["needs_to_manifest"].replace("|", "/"), m["caught_by"].replace("|", "/")))
    if "MISSED" in m["caught_by"] or "first missed" in m["caught_by"]:
        missed.append(m["id"])
head = "| seeded change | property | what it needs to manifest | caught by |\n|---|---|---|---|\n"
a = s.index(head) + len(head)
b = s.index("\n\n**", a)
s = s[:a] + "\n".join(rows) + s[b:]
s = re.sub(r"\*\*\d+ of the \d+ kept changes were missed at first\*\* \([^)]*\)", "**%d of the %d kept changes were missed at first** (%s)" % (len(missed), len(rows), ", ".join("`%s`" % m for m in missed)), s)
open(p, "w").write(s)
print("fixes:", len(fixes), "seeded:", len(rows), "missed at first:", len(missed))
