#!/usr/bin/env python3
"""tools/archive_mutant.py <worktree> <seeded-id> <property> <caught-by> <needs...> : copies patch + demo + notes into /verif/seeded/<id>/ and writes meta.json."""
import json, os, shutil, sys, glob
wt, sid, prop, caught = sys.argv[1:5]
needs = " ".join(sys.argv[5:])
dst = os.path.join("/verif/seeded", sid)
os.makedirs(dst, exist_ok=True)
for f in glob.glob(os.path.join(wt, "demo", "*")):
    if os.path.basename(f).startswith("confirm_") or f.endswith(".log"):
        continue
    shutil.copy(f, dst)
confirm = {}
for name in ("confirm_without.log", "confirm_with.log", "confirm_suite.log"):
    p = os.path.join(wt, "demo", name)
    if os.path.exists(p):
        lines = [l for l in open(p, errors="replace").read().splitlines() if l.startswith("test result")]
        confirm[name] = lines[-3:]
meta = {
    "id": sid, "property": prop, "origin": "independent sub-agent given only the property text and a scratch worktree",
    "needs_to_manifest": needs,
    "confirmed_by_us": {"procedure": "tools/confirm_mutant.sh in the scratch worktree: demo on clean HEAD passes, demo with patch fails, whole suite with patch passes", "results": confirm},
    "checked_with": "tools/try_mutant.sh seeded/%s/patch.diff %s (git -C /repo apply, ./check, git -C /repo checkout -- .)" % (sid, prop),
    "caught_by": caught,
}
json.dump(meta, open(os.path.join(dst, "meta.json"), "w"), indent=1)
print("archived", dst)
