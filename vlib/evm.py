"""EVM (Shanghai) opcode table, reference disassembler and a tiny assembler. Independent of the library."""

M256 = (1 << 256) - 1

# byte -> (name, pops, pushes)
OPS = {}


def _op(b, name, pops, pushes):
    OPS[b] = (name, pops, pushes)


for b, n, i, o in [
    (0x00, "STOP", 0, 0), (0x01, "ADD", 2, 1), (0x02, "MUL", 2, 1), (0x03, "SUB", 2, 1), (0x04, "DIV", 2, 1),
    (0x05, "SDIV", 2, 1), (0x06, "MOD", 2, 1), (0x07, "SMOD", 2, 1), (0x08, "ADDMOD", 3, 1), (0x09, "MULMOD", 3, 1),
    (0x0a, "EXP", 2, 1), (0x0b, "SIGNEXTEND", 2, 1),
    (0x10, "LT", 2, 1), (0x11, "GT", 2, 1), (0x12, "SLT", 2, 1), (0x13, "SGT", 2, 1), (0x14, "EQ", 2, 1),
    (0x15, "ISZERO", 1, 1), (0x16, "AND", 2, 1), (0x17, "OR", 2, 1), (0x18, "XOR", 2, 1), (0x19, "NOT", 1, 1),
    (0x1a, "BYTE", 2, 1), (0x1b, "SHL", 2, 1), (0x1c, "SHR", 2, 1), (0x1d, "SAR", 2, 1),
    (0x20, "SHA3", 2, 1),
    (0x30, "ADDRESS", 0, 1), (0x31, "BALANCE", 1, 1), (0x32, "ORIGIN", 0, 1), (0x33, "CALLER", 0, 1),
    (0x34, "CALLVALUE", 0, 1), (0x35, "CALLDATALOAD", 1, 1), (0x36, "CALLDATASIZE", 0, 1),
    (0x37, "CALLDATACOPY", 3, 0), (0x38, "CODESIZE", 0, 1), (0x39, "CODECOPY", 3, 0), (0x3a, "GASPRICE", 0, 1),
    (0x3b, "EXTCODESIZE", 1, 1), (0x3c, "EXTCODECOPY", 4, 0), (0x3d, "RETURNDATASIZE", 0, 1),
    (0x3e, "RETURNDATACOPY", 3, 0), (0x3f, "EXTCODEHASH", 1, 1),
    (0x40, "BLOCKHASH", 1, 1), (0x41, "COINBASE", 0, 1), (0x42, "TIMESTAMP", 0, 1), (0x43, "NUMBER", 0, 1),
    (0x44, "PREVRANDAO", 0, 1), (0x45, "GASLIMIT", 0, 1), (0x46, "CHAINID", 0, 1), (0x47, "SELFBALANCE", 0, 1),
    (0x48, "BASEFEE", 0, 1),
    (0x50, "POP", 1, 0), (0x51, "MLOAD", 1, 1), (0x52, "MSTORE", 2, 0), (0x53, "MSTORE8", 2, 0),
    (0x54, "SLOAD", 1, 1), (0x55, "SSTORE", 2, 0), (0x56, "JUMP", 1, 0), (0x57, "JUMPI", 2, 0), (0x58, "PC", 0, 1),
    (0x59, "MSIZE", 0, 1), (0x5a, "GAS", 0, 1), (0x5b, "JUMPDEST", 0, 0), (0x5f, "PUSH0", 0, 1),
    (0xf0, "CREATE", 3, 1), (0xf1, "CALL", 7, 1), (0xf2, "CALLCODE", 7, 1), (0xf3, "RETURN", 2, 0),
    (0xf4, "DELEGATECALL", 6, 1), (0xf5, "CREATE2", 4, 1), (0xfa, "STATICCALL", 6, 1), (0xfd, "REVERT", 2, 0),
    (0xfe, "INVALID", 0, 0), (0xff, "SELFDESTRUCT", 1, 0),
]:
    _op(b, n, i, o)
for k in range(1, 33):
    _op(0x5f + k, "PUSH%d" % k, 0, 1)
for k in range(1, 17):
    _op(0x7f + k, "DUP%d" % k, k, k + 1)
    _op(0x8f + k, "SWAP%d" % k, k + 1, k + 1)
for k in range(0, 5):
    _op(0xa0 + k, "LOG%d" % k, 2 + k, 0)

NAME2BYTE = {v[0]: k for k, v in OPS.items()}
HALTING = {0x00, 0xf3, 0xfd, 0xfe, 0xff}


def assigned(b):
    return b in OPS and b != 0xfe


def is_push(b):
    return 0x60 <= b <= 0x7f


def disasm_ref(code):
    """Reference disassembly: returns (kinds, bytes) with one entry per input byte.
    kinds: 'P' push opcode, 'N' push immediate (not an instruction), 'J' JUMPDEST, 'O' other assigned opcode,
    'I' behaves as INVALID (0xfe, unassigned, or part of a trailing truncated push: 'T' marks those)."""
    n = len(code)
    kinds = [None] * n
    i = 0
    while i < n:
        b = code[i]
        if is_push(b):
            k = b - 0x5f
            if i + k < n:
                kinds[i] = "P"
                for j in range(i + 1, i + 1 + k):
                    kinds[j] = "N"
                i += k + 1
            else:
                for j in range(i, n):
                    kinds[j] = "T"
                break
        elif b == 0x5b:
            kinds[i] = "J"
            i += 1
        elif assigned(b):
            kinds[i] = "O"
            i += 1
        else:
            kinds[i] = "I"
            i += 1
    return kinds


def instruction_starts(code):
    """Offsets that are instruction boundaries (not push data) and the set of valid JUMPDEST offsets."""
    kinds = disasm_ref(code)
    starts = [i for i, k in enumerate(kinds) if k not in ("N",)]
    jumpdests = {i for i, k in enumerate(kinds) if k == "J"}
    return kinds, starts, jumpdests


# ------------------------------------------------------------------------------------------------ assembler

def push(v, width=None):
    """PUSHn of the integer v (minimal width unless given; PUSH0 for 0 when width is None)."""
    v &= M256
    if width is None:
        if v == 0:
            return bytes([0x5f])
        width = max(1, (v.bit_length() + 7) // 8)
    assert 1 <= width <= 32
    return bytes([0x5f + width]) + (v & ((1 << (8 * width)) - 1)).to_bytes(width, "big")


def op(name):
    return bytes([NAME2BYTE[name]])


def asm(*parts):
    """asm('CALLER', 5, ('push', 7, 32), b'\\x00') -> bytes. ints are pushed minimally, strings are opcode names."""
    out = b""
    for p in parts:
        if isinstance(p, bytes):
            out += p
        elif isinstance(p, int):
            out += push(p)
        elif isinstance(p, str):
            out += op(p)
        elif isinstance(p, tuple) and p[0] == "push":
            out += push(p[1], p[2])
        elif isinstance(p, (list,)):
            out += asm(*p)
        else:
            raise ValueError(p)
    return out


class Asm:
    """Assembler with labels (two-byte jump targets)."""

    def __init__(self, label_width=2):
        self.items = []
        self.labels = {}
        self.label_width = label_width   # bytes in a label push (3 when the code is longer than 65535 bytes)

    def emit(self, *parts):
        self.items.append(("raw", asm(*parts)))
        return self

    def label(self, name):
        self.items.append(("label", name))
        self.items.append(("raw", bytes([0x5b])))
        return self

    def mark(self, name):
        """A label without a JUMPDEST byte (for invalid-target experiments)."""
        self.items.append(("label", name))
        return self

    def push_label(self, name):
        self.items.append(("pushl", name))
        return self

    def mark_at(self, name, delta):
        """Label = current position + delta (e.g. a byte inside the immediate of the next push)."""
        self.items.append(("label+", (name, delta)))
        return self

    def push_expr(self, fn, width):
        """PUSH<width> of fn(labels) evaluated once all labels are known."""
        self.items.append(("pushf", (fn, width)))
        return self

    def jump(self, name):
        return self.push_label(name).emit("JUMP")

    def jumpi(self, name):
        return self.push_label(name).emit("JUMPI")

    def assemble(self):
        # two passes; label pushes are always PUSH2
        pos = 0
        for kind, v in self.items:
            if kind == "raw":
                pos += len(v)
            elif kind == "label":
                self.labels[v] = pos
            elif kind == "label+":
                self.labels[v[0]] = pos + v[1]
            elif kind == "pushf":
                pos += 1 + v[1]
            else:
                pos += 1 + self.label_width
        self.labels["__len__"] = pos
        out = b""
        for kind, v in self.items:
            if kind == "raw":
                out += v
            elif kind == "pushl":
                out += bytes([0x5f + self.label_width]) + self.labels[v].to_bytes(self.label_width, "big")
            elif kind == "pushf":
                fn, width = v
                out += push(fn(self.labels) & ((1 << (8 * width)) - 1), width)
        return out


BOUNDARY_K = (7, 8, 16, 31, 32, 53, 56, 63, 64, 128, 160, 255)


def boundary_constants(code_len=None):
    s = {0, 1, 2, 31, 32, 33, 255, 256, 257, M256, M256 - 1, 1 << 255, (1 << 255) - 1, (1 << 255) + 1}
    for k in BOUNDARY_K:
        s.update({(1 << k), (1 << k) - 1, ((1 << k) + 1) & M256})
    if code_len is not None:
        s.update({code_len, max(0, code_len - 1), code_len + 1})
    s.add(0x360894a13ba1a3210667c828492db98dca3e2076cc3735a920a3ca505d382bbc)  # EIP-1967 implementation slot
    s.add(0xb53127684a568b3173ae13b9f8a6016e243e63b6e8ee1178d6a717850b5d6103)  # EIP-1967 admin slot
    return sorted(s)
