"""Sanitizer layers: the driver under Miri (undefined-behaviour interpreter, tree borrows) and under valgrind memcheck.

Both replay JSONL requests through the same driver code as the normal checks, so the library code reached is the real
code; what is added is the interpreter's / memcheck's own oracle. Reports are de-duplicated by their first frame inside
/repo (or, failing that, the first frame). A sanitizer process that dies without a report, or times out, is
inconclusive."""
import json
import os
import re
import subprocess
import tempfile
import time

from . import common

MIRI_TARGET = os.path.join(common.TARGET, "miri")


def _miri_env(seed):
    env = dict(os.environ)
    env["CARGO_NET_OFFLINE"] = "true"
    flags = env.get("RUSTFLAGS", "")
    if common.GUARD not in flags:
        flags = (flags + " --cfg " + common.GUARD).strip()
    env["RUSTFLAGS"] = flags
    env["MIRIFLAGS"] = "-Zmiri-disable-isolation -Zmiri-tree-borrows -Zmiri-seed=%d" % (seed % (1 << 32))
    return env


def miri_build():
    """Builds the driver for Miri once (so that parallel shards do not fight over the build lock)."""
    r = subprocess.run(["cargo", "+nightly", "miri", "run", "--offline", "--target-dir", MIRI_TARGET],
                       cwd=common.HARNESS, env=_miri_env(0), stdin=subprocess.DEVNULL, stdout=subprocess.PIPE,
                       stderr=subprocess.STDOUT, text=True, timeout=1800)
    if r.returncode != 0:
        raise common.HarnessError("miri build failed: %s" % r.stdout[-1500:])


def first_repo_frame(text):
    frames = re.findall(r"(?:at|-->) (\S+?):(\d+):\d+", text)
    for f, line in frames:
        if f.startswith(common.REPO + "/src") or "/repo/src" in f:
            return "%s:%s" % (f.split("/src/", 1)[-1], line)
    if frames:
        f, line = frames[0]
        return "%s:%s" % ("/".join(f.split("/")[-2:]), line)
    return "unknown"


def miri_run(requests, seed, timeout=1500):
    """Feeds `requests` to one `cargo miri run` process. Returns (responses, report) where report is None or a dict
    {kind, frame, text}; responses may be shorter than requests if Miri stopped the program."""
    with tempfile.NamedTemporaryFile("w", suffix=".jsonl", delete=False) as f:
        for i, r in enumerate(requests):
            rr = dict(r)
            rr["id"] = i + 1
            f.write(json.dumps(rr) + "\n")
        path = f.name
    t0 = time.time()
    try:
        with open(path) as fin:
            p = subprocess.run(["cargo", "+nightly", "miri", "run", "--offline", "--target-dir", MIRI_TARGET],
                               cwd=common.HARNESS, env=_miri_env(seed), stdin=fin, stdout=subprocess.PIPE,
                               stderr=subprocess.PIPE, text=True, timeout=timeout)
        out, err, code = p.stdout, p.stderr, p.returncode
    except subprocess.TimeoutExpired as e:
        out = e.stdout.decode() if isinstance(e.stdout, bytes) else (e.stdout or "")
        err, code = "timeout", None
    finally:
        os.unlink(path)
    responses = []
    for line in out.splitlines():
        line = line.strip()
        if line.startswith("{"):
            try:
                responses.append(json.loads(line))
            except Exception:
                pass
    report = None
    if code is None:
        report = {"kind": "timeout", "frame": "-", "text": "miri timed out after %ds with %d/%d answers" % (
            timeout, len(responses), len(requests))}
    elif "Undefined Behavior" in err or "error: unsupported operation" in err or "error: memory leaked" in err \
            or "error: the evaluated program" in err or "data race" in err.lower():
        kind = "undefined-behaviour" if "Undefined Behavior" in err else (
            "unsupported" if "unsupported operation" in err else ("leak" if "memory leaked" in err else "error"))
        i = err.find("error:")
        report = {"kind": kind, "frame": first_repo_frame(err[i:]), "text": err[i:i + 1500]}
    elif code != 0 and len(responses) < len(requests):
        report = {"kind": "died", "frame": "-", "text": err[-800:]}
    return responses, report, time.time() - t0


def valgrind_driver(profile="rel"):
    return common.Driver(profile, shim=False, mem_gb=0,
                         wrapper=["valgrind", "--quiet", "--error-exitcode=99", "--leak-check=no",
                                  "--num-callers=30", "--errors-for-leak-kinds=none"])


def valgrind_finish(d):
    """Stops a valgrind-wrapped driver (closing stdin lets it exit normally) and returns the list of memcheck reports."""
    reports = []
    text = ""
    try:
        d.proc.stdin.close()
        d.proc.wait(timeout=120)
    except Exception:
        pass
    try:
        d.errfile.seek(0)
        text = d.errfile.read().decode("utf8", "replace")
    except Exception:
        pass
    rc = d.proc.returncode if d.proc else None
    d.stop()
    blocks = re.split(r"\n(?===\d+== \n|==\d+== (?:Invalid|Conditional|Use of|Syscall|Mismatched|Source and|Process terminating))", text)
    for b in blocks:
        m = re.search(r"==\d+== (Invalid (?:read|write|free)[^\n]*|Conditional jump[^\n]*|Use of uninitialised[^\n]*|"
                      r"Syscall param[^\n]*|Mismatched free[^\n]*|Source and destination overlap[^\n]*)", b)
        if m:
            frames = re.findall(r"\((\S+?\.rs):(\d+)\)", b)
            frame = "unknown"
            for f, line in frames:
                frame = "%s:%s" % (f, line)
                break
            reports.append({"kind": m.group(1)[:60], "frame": frame, "text": b[:1200]})
    return reports, rc, text[-500:]


def _miri_shard(shard_no, nshards, seed, tier, extra):
    make, prop = extra
    reqs = make(shard_no, nshards, seed)
    res = common.Result()
    if not reqs:
        return res.to_dict()
    responses, report, wall = miri_run(reqs, seed + shard_no)
    res.evaluations += len(reqs)
    res.judged += len(responses)
    res.count("miri_requests_answered", len(responses))
    res.count("miri_requests_sent", len(reqs))
    res.counters["max_miri_shard_wall_s"] = int(wall)
    for r in responses:
        if r.get("class") == "panic":
            res.violation("%s:miri:panic:%s:%s" % (prop.lower(), (r.get("file") or "?").split("/")[-1], r.get("line")),
                          r.get("msg"), {"request": reqs[r["id"] - 1], "under": "miri"})
        for v in r.get("violations", []) or []:
            res.violation("%s:miri:%s" % (prop.lower(), v.get("signature")), json.dumps(v)[:300],
                          {"request": reqs[r["id"] - 1], "under": "miri"})
        for sub in r.get("results", []) or []:
            if isinstance(sub, dict) and sub.get("class") == "panic":
                res.violation("%s:miri:panic:%s:%s" % (prop.lower(), (sub.get("file") or "?").split("/")[-1], sub.get("line")),
                              sub.get("msg"), {"request": reqs[r["id"] - 1], "under": "miri"})
    if report:
        if report["kind"] in ("timeout", "died", "unsupported"):
            res.inconc("miri:%s" % report["kind"])
            res.notes.append(report["text"][:300])
        else:
            nxt = reqs[len(responses)] if len(responses) < len(reqs) else None
            res.violation("%s:miri:%s:%s" % (prop.lower(), report["kind"], report["frame"]), report["text"][:600],
                          {"request": nxt, "under": "miri"})
    if responses:
        res.nontriv("miri-shard-%d" % shard_no)
        res.nontriv("miri-answers-%d" % len(responses))
    return res.to_dict()


def miri_layer(prop, make_requests, seed, tier, nshards=None):
    """Runs make_requests(shard, nshards, seed) under Miri in parallel shards; returns a merged Result."""
    miri_build()
    return common.Result.merge(common.run_sharded(_miri_shard, seed, tier, extra=(make_requests, prop), nshards=nshards))
