"""Reference models for unification: union-find with congruence closure over type constructors, and the word lattice.

Type expressions use the driver's JSON encoding: "any", "bytes", ["eq", v], ["word", width|None, usage],
["fixed", elem, "0x.."], ["map", k, v], ["dyn", elem], ["packed", is_struct, [typ, off, size]...], ["conflict", ..]."""

USAGES = ["bytes", "numeric", "unsigned", "signed", "bool", "address", "selector", "function"]
FIXED_WIDTH = {"bool": 8, "address": 160, "selector": 32, "function": 192}


class UF:
    def __init__(self, n=0):
        self.p = list(range(n))

    def add(self, v):
        while len(self.p) <= v:
            self.p.append(len(self.p))

    def find(self, x):
        self.add(x)
        while self.p[x] != x:
            self.p[x] = self.p[self.p[x]]
            x = self.p[x]
        return x

    def union(self, a, b):
        ra, rb = self.find(a), self.find(b)
        if ra != rb:
            self.p[max(ra, rb)] = min(ra, rb)
            return True
        return False

    def classes(self):
        out = {}
        for v in range(len(self.p)):
            out.setdefault(self.find(v), []).append(v)
        return out


def usage_join(a, b):
    """Join in the usage order (Bytes below everything; Numeric below Unsigned, Signed, Address; Unsigned below
    Address); None if incompatible."""
    if a == b:
        return a
    if a == "bytes":
        return b
    if b == "bytes":
        return a
    pair = {a, b}
    if pair == {"numeric", "unsigned"}:
        return "unsigned"
    if pair == {"numeric", "signed"}:
        return "signed"
    if pair == {"numeric", "address"} or pair == {"unsigned", "address"}:
        return "address"
    return None


def word_join(a, b):
    """a, b: ["word", width, usage]. Returns the joined word or None if contradictory."""
    wa, wb = a[1], b[1]
    if wa is not None and wb is not None and wa != wb:
        return None
    u = usage_join(a[2], b[2])
    if u is None:
        return None
    return ["word", wa if wa is not None else wb, u]


def kind(e):
    return e if isinstance(e, str) else e[0]


def closure(nvars, judgements):
    """Congruence closure of the equalities in `judgements` ([[var, expr], ...]): union on eq, and - per class -
    union the components of same-constructor evidence (map/map, dyn/dyn, fixed/fixed of equal length), to fixpoint.
    Returns the UF. (Used as the *expected* partition only where the class is not contradictory.)"""
    uf = UF(nvars)
    for v, e in judgements:
        if kind(e) == "eq":
            uf.union(v, e[1])
    changed = True
    while changed:
        changed = False
        by_class = {}
        for v, e in judgements:
            by_class.setdefault(uf.find(v), []).append(e)
        for root, evs in by_class.items():
            maps = [e for e in evs if kind(e) == "map"]
            for a, b in zip(maps, maps[1:]):
                changed |= uf.union(a[1], b[1])
                changed |= uf.union(a[2], b[2])
            dyns = [e for e in evs if kind(e) == "dyn"]
            for a, b in zip(dyns, dyns[1:]):
                changed |= uf.union(a[1], b[1])
            fixed = {}
            for e in evs:
                if kind(e) == "fixed":
                    fixed.setdefault(e[2], []).append(e)
            for group in fixed.values():
                for a, b in zip(group, group[1:]):
                    changed |= uf.union(a[1], b[1])
    return uf
