"""Ground-truth layout -> bytecode, in the storage idioms the lifting passes document.

A ground truth is a list of variables:
  {"kind": "word", "slot": s}
  {"kind": "addr", "slot": s}                               (value masked to 160 bits)
  {"kind": "mapping", "slot": s, "keys": ["word"|"addr", ...], "value": "word"|"addr"}
  {"kind": "dynarray", "slot": s}
  {"kind": "packed", "slot": s, "fields": [(byte_offset, byte_width), ...]}  (fields tile the 32 bytes, LSB first)
Every variable gets its accesses (read, write or both) in separate branches of a calldata-selector dispatcher.
"""
from . import evm, keccak

_SPECIAL = None


def special_hash_slots():
    """Slots below 10000 whose keccak has an extreme byte pattern (boundary values for a pre-folded hash literal):
    leading zero byte(s), trailing zero byte, smallest / largest hashes."""
    global _SPECIAL
    if _SPECIAL is None:
        table = keccak.slot_hash_table()
        items = sorted(table.items())
        out = {i for h, i in items[:12]} | {i for h, i in items[-12:]}
        out |= {i for h, i in items if h >> 248 == 0}
        out |= {i for h, i in items if h & 0xff == 0}
        out |= {i for h, i in items if (h >> 248) == 0xff}
        _SPECIAL = sorted(out)
    return _SPECIAL

ADDR_MASK = (1 << 160) - 1


def emit_value(a, kind, arg):
    """Pushes a fresh symbolic value of the given kind."""
    if kind == "addr":
        if arg % 2 == 0:
            a.emit("CALLER")
        else:
            a.emit(4 + 32 * (arg % 5), "CALLDATALOAD", ("push", ADDR_MASK, 20), "AND")
    else:
        a.emit(4 + 32 * (arg % 5), "CALLDATALOAD")


def emit_mapping_slot(a, var, argbase=0):
    """Leaves keccak(key_d || ... keccak(key_1 || slot)) on the stack."""
    first = True
    mb = var.get("mem_base", 0)                                    # scratch space, or a frame at the free-memory pointer
    for i, k in enumerate(var["keys"]):
        emit_value(a, k, argbase + i)
        a.emit((("push", 0, 1) if i % 2 else 0) if mb == 0 else mb, "MSTORE")   # key at mb
        if first:
            a.emit(var["slot"] if var["slot"] else ("push", 0, 1))
            first = False
        # (for nested levels the previous hash is already on the stack)
        a.emit(mb + 0x20, "MSTORE")                                # slot / previous hash at mb + 0x20
        a.emit(0x40, mb, "SHA3")


def emit_read(a, var, rng):
    kind = var["kind"]
    if kind == "word":
        a.emit(var["slot"] if var["slot"] else ("push", 0, 1), "SLOAD")
        a.emit(0, "MSTORE")
    elif kind == "addr":
        a.emit(var["slot"] if var["slot"] else ("push", 0, 1), "SLOAD", ("push", ADDR_MASK, 20), "AND")
        a.emit(0, "MSTORE")
    elif kind == "mapping":
        emit_mapping_slot(a, var)
        a.emit("SLOAD")
        if var["value"] == "addr":
            a.emit(("push", ADDR_MASK, 20), "AND")
        a.emit(0, "MSTORE")
    elif kind == "dynarray":
        if var.get("prefolded"):
            # the compiler has folded keccak(slot) into a literal (minimal PUSH width, as solc emits it)
            a.emit(("push", keccak.keccak_words(var["slot"]), None))
        else:
            a.emit(var["slot"] if var["slot"] else ("push", 0, 1), var.get("mem_base", 0), "MSTORE", 0x20,
                   var.get("mem_base", 0), "SHA3")
        a.emit(4, "CALLDATALOAD")
        if rng.random() < 0.5:
            a.emit("SWAP1")
        a.emit("ADD", "SLOAD", 0, "MSTORE")
    elif kind == "packed":
        for (off, width) in var["fields"]:
            if not var.get("read_fields") or (off, width) in var["read_fields"]:
                a.emit(var["slot"] if var["slot"] else ("push", 0, 1), "SLOAD")
                if off:
                    if var.get("shift_style", "shr") == "shr":
                        a.emit(8 * off, "SHR")
                    elif var.get("shift_style") == "shr-computed":
                        # the shift amount spelled as a constant expression (byte offset * 8), as unoptimised helpers do
                        a.emit(off, 8, "MUL", "SHR")
                    else:
                        a.emit(("push", 1 << (8 * off), None), "SWAP1", "DIV")
                a.emit(("push", (1 << (8 * width)) - 1, width), "AND", 0, "MSTORE")


def _src_shift(a, var, width):
    """The value written into a field may itself be a part of a wider word: field = uintN(x >> j)."""
    j = var.get("src_shift", 0)
    if j and j + 8 * width <= 256:
        if var.get("shift_style", "shr") in ("shr", "shr-computed"):
            a.emit(j, "SHR")
        else:
            a.emit(("push", 1 << j, None), "SWAP1", "DIV")


def emit_write(a, var, rng):
    kind = var["kind"]
    if kind == "word":
        a.emit(4, "CALLDATALOAD", var["slot"] if var["slot"] else ("push", 0, 1), "SSTORE")
    elif kind == "addr":
        emit_value(a, "addr", rng.randrange(4))
        a.emit(var["slot"] if var["slot"] else ("push", 0, 1), "SSTORE")
    elif kind == "mapping":
        emit_value(a, var["value"], len(var["keys"]))
        emit_mapping_slot(a, var)
        a.emit("SSTORE")
    elif kind == "dynarray":
        a.emit(36, "CALLDATALOAD")
        if var.get("prefolded"):
            a.emit(("push", keccak.keccak_words(var["slot"]), None))
        else:
            a.emit(var["slot"] if var["slot"] else ("push", 0, 1), var.get("mem_base", 0), "MSTORE", 0x20,
                   var.get("mem_base", 0), "SHA3")
        a.emit(4, "CALLDATALOAD", "ADD", "SSTORE")
    elif kind == "packed" and var.get("write_style") in ("single-left", "single-right"):
        # all fields combined into one word and stored with a single SSTORE (struct initialisation); the or-tree
        # leans right when the accumulator stays below the new field (f0; f1; OR; f2; OR) and left with a SWAP1
        slot = var["slot"] if var["slot"] else ("push", 0, 1)
        for i, (off, width) in enumerate(var["fields"]):
            m = (1 << (8 * width)) - 1
            a.emit(4 + 32 * (i % 6), "CALLDATALOAD")
            _src_shift(a, var, width)
            a.emit(("push", m, width), "AND")
            if off:
                a.emit(("push", 1 << (8 * off), None), "MUL")
            if i:
                if var["write_style"] == "single-left":
                    a.emit("SWAP1")
                a.emit("OR")
        a.emit(slot, "SSTORE")
    elif kind == "packed":
        for (off, width) in var["fields"]:
            m = (1 << (8 * width)) - 1
            slot = var["slot"] if var["slot"] else ("push", 0, 1)
            # old & ~(m << k)
            a.emit(slot, "SLOAD", ("push", evm.M256 ^ (m << (8 * off)), 32), "AND")
            # (v & m) * 2^k
            a.emit(4 + 32 * (off % 4), "CALLDATALOAD")
            _src_shift(a, var, width)
            a.emit(("push", m, width), "AND")
            if off:
                a.emit(("push", 1 << (8 * off), None), "MUL")
            a.emit("OR", slot, "SSTORE")


def build(gt, rng, modes=None):
    """Returns bytecode. modes: per variable 'r', 'w' or 'rw' (random if None)."""
    a = evm.Asm()
    branches = []
    for i, var in enumerate(gt):
        mode = (modes[i] if modes else rng.choice(["r", "w", "rw"]))
        var["_mode"] = mode
        if "r" in mode:
            branches.append((var, "r"))
        if "w" in mode:
            branches.append((var, "w"))
    rng.shuffle(branches)
    a.emit(0, "CALLDATALOAD", 0xe0, "SHR")
    for bi, (var, m) in enumerate(branches):
        a.emit("DUP1", ("push", 0xa0000000 + bi * 0x01010101 & 0xffffffff, 4), "EQ")
        a.jumpi("B%d" % bi)
    a.emit("STOP")
    for bi, (var, m) in enumerate(branches):
        a.label("B%d" % bi)
        if m == "r":
            emit_read(a, var, rng)
        else:
            emit_write(a, var, rng)
        a.emit("STOP")
    return a.assemble()


def random_fields(rng):
    """Splits 32 bytes into 2-6 fields at byte boundaries."""
    n = rng.randint(2, 6)
    cuts = sorted(rng.sample(range(1, 32), n - 1))
    edges = [0] + cuts + [32]
    return [(edges[i], edges[i + 1] - edges[i]) for i in range(n)]


ASCII_NAMES = [b"balances", b"owner", b"allowances", b"a", b"storage.slot.v1", b"eip1967.proxy.implementation",
               b"0123456789abcdef0123456789abcdef", b"x y", b"Z"]


def big_slot(rng):
    """Slot numbers far from the small integers: wide, boundary, and ones whose bytes read as text (left- or
    right-aligned), as used by hand-placed "named" storage."""
    r = rng.random()
    if r < 0.3:
        name = rng.choice(ASCII_NAMES)
        return int.from_bytes(name.ljust(32, b"\0"), "big")
    if r < 0.4:
        return int.from_bytes(rng.choice(ASCII_NAMES), "big")
    if r < 0.6:
        return rng.getrandbits(256)
    if r < 0.8:
        return (1 << rng.choice([64, 128, 160, 255])) + rng.randrange(0, 3)
    return rng.choice([(1 << 256) - 1, (1 << 256) - 2, (1 << 64) - 1, 10000, 9999,
                       0x360894a13ba1a3210667c828492db98dca3e2076cc3735a920a3ca505d382bbc])


def aliasing_pool(rng):
    """Slot numbers that agree in their low 32 / 64 / 128 / 192 bits (or in their high bits): distinct slots that a
    truncating comparison, hash or sort key would confuse."""
    base = rng.choice([0, 1, 7, rng.getrandbits(20), rng.getrandbits(64)])
    pool = {base}
    for sh in (32, 64, 128, 192, 255):
        if rng.random() < 0.7:
            pool.add((base + (rng.randint(1, 3) << sh)) & ((1 << 256) - 1))
    hi = rng.getrandbits(128) << 128
    pool.update({hi | 1, hi | 2})
    return sorted(pool)


def random_ground_truth(rng, nvars=None, slot_pool=None, kinds=None):
    nvars = nvars or rng.randint(1, 12)
    kinds = kinds or ["word", "addr", "mapping", "dynarray", "packed"]
    used = set()
    gt = []
    for _ in range(nvars):
        while True:
            if slot_pool is not None:
                s = rng.choice(slot_pool)
            else:
                r = rng.random()
                if r < 0.55:
                    s = rng.randrange(0, 12)
                elif r < 0.75:
                    s = rng.randrange(12, 300)
                elif r < 0.85:
                    s = rng.randrange(300, 9000)
                else:
                    s = big_slot(rng)
            if s not in used:
                used.add(s)
                break
        kind = rng.choice(kinds)
        var = {"kind": kind, "slot": s}
        # pre-folded hashes are only recognised for slot numbers below 10000 (documented)
        if kind == "dynarray" and slot_pool is None and s < 10000 and rng.random() < 0.4:
            var["prefolded"] = True
            if rng.random() < 0.6:
                cand = [x for x in special_hash_slots() if x not in used]
                if cand:
                    used.discard(s)
                    var["slot"] = rng.choice(cand)
                    used.add(var["slot"])
        if kind in ("mapping", "dynarray") and rng.random() < 0.3:
            # the pre-image is staged in a memory frame instead of the scratch space
            var["mem_base"] = rng.choice([0x40, 0x80, 0x100, 0x160, 0x180, 0x1c0, 0x400, 0x1000, 0x10000])
        if kind == "mapping":
            d = rng.choice([1, 1, 2, 2, 3, 4])
            var["keys"] = [rng.choice(["word", "addr"]) for _ in range(d)]
            var["value"] = rng.choice(["word", "addr"])
        elif kind == "packed":
            var["fields"] = random_fields(rng)
            var["shift_style"] = rng.choice(["shr", "div", "shr-computed"])
            var["write_style"] = rng.choice(["per-field", "per-field", "single-left", "single-right"])
            if rng.random() < 0.3:
                var["src_shift"] = rng.choice([8, 64, 96, 128, 160])
        gt.append(var)
    return gt
