"""Keccak-256 in pure Python (independent of the library), plus a cached table of keccak(i) for small slot numbers."""
import json
import os

RC = [0x0000000000000001, 0x0000000000008082, 0x800000000000808A, 0x8000000080008000, 0x000000000000808B,
      0x0000000080000001, 0x8000000080008081, 0x8000000000008009, 0x000000000000008A, 0x0000000000000088,
      0x0000000080008009, 0x000000008000000A, 0x000000008000808B, 0x800000000000008B, 0x8000000000008089,
      0x8000000000008003, 0x8000000000008002, 0x8000000000000080, 0x000000000000800A, 0x800000008000000A,
      0x8000000080008081, 0x8000000000008080, 0x0000000080000001, 0x8000000080008008]
ROT = [[0, 36, 3, 41, 18], [1, 44, 10, 45, 2], [62, 6, 43, 15, 61], [28, 55, 25, 21, 56], [27, 20, 39, 8, 14]]
M64 = (1 << 64) - 1


def _rol(x, n):
    n %= 64
    return ((x << n) | (x >> (64 - n))) & M64 if n else x


def _f(a):
    for rnd in range(24):
        c = [a[x][0] ^ a[x][1] ^ a[x][2] ^ a[x][3] ^ a[x][4] for x in range(5)]
        d = [c[(x - 1) % 5] ^ _rol(c[(x + 1) % 5], 1) for x in range(5)]
        a = [[a[x][y] ^ d[x] for y in range(5)] for x in range(5)]
        b = [[0] * 5 for _ in range(5)]
        for x in range(5):
            for y in range(5):
                b[y][(2 * x + 3 * y) % 5] = _rol(a[x][y], ROT[x][y])
        a = [[b[x][y] ^ ((~b[(x + 1) % 5][y]) & b[(x + 2) % 5][y]) for y in range(5)] for x in range(5)]
        a[0][0] ^= RC[rnd]
    return a


def keccak256(data: bytes) -> bytes:
    rate = 136
    p = bytearray(data)
    p.append(0x01)
    while len(p) % rate:
        p.append(0)
    p[-1] |= 0x80
    a = [[0] * 5 for _ in range(5)]
    for off in range(0, len(p), rate):
        block = p[off:off + rate]
        for i in range(rate // 8):
            a[i % 5][i // 5] ^= int.from_bytes(block[8 * i:8 * i + 8], "little")
        a = _f(a)
    out = b""
    for i in range(4):
        out += a[i % 5][i // 5].to_bytes(8, "little")
    return out


def keccak_words(*words) -> int:
    return int.from_bytes(keccak256(b"".join((w & ((1 << 256) - 1)).to_bytes(32, "big") for w in words)), "big")


_TABLE = None


def slot_hash_table(n=10000):
    """{keccak(i): i for i < n}, cached on disk (pure-Python keccak is slow)."""
    global _TABLE
    if _TABLE is not None:
        return _TABLE
    path = os.path.join(os.path.dirname(os.path.dirname(os.path.abspath(__file__))), "target", "keccak_%d.json" % n)
    if os.path.exists(path):
        try:
            raw = json.load(open(path))
            _TABLE = {int(k, 16): v for k, v in raw.items()}
            if len(_TABLE) == n:
                return _TABLE
        except Exception:
            pass
    _TABLE = {keccak_words(i): i for i in range(n)}
    os.makedirs(os.path.dirname(path), exist_ok=True)
    tmp = path + ".%d.tmp" % os.getpid()
    json.dump({"%x" % k: v for k, v in _TABLE.items()}, open(tmp, "w"))
    os.replace(tmp, path)
    return _TABLE


def selftest():
    assert keccak256(b"").hex() == "c5d2460186f7233c927e7db2dcc703c0e500b653ca82273b7bfad8045d85a470"
    assert keccak_words(0) == 0x290decd9548b62a8d60345a988386fc84ba6bc95484008f6362f93160ef3e563
    assert keccak_words(1) == 0xb10e2d527612073b26eecdfd717e6a320cf44b4afac2b0732d9fcbe2b7fa0cf6
    return True
