"""Generators of stack-aware, loop-free EVM programs (forward jumps only) for the VM checks C07 / C08 / C17."""
from . import evm

ALU2 = ["ADD", "MUL", "SUB", "DIV", "SDIV", "MOD", "SMOD", "EXP", "LT", "GT", "SLT", "SGT", "EQ", "AND", "OR", "XOR",
        "BYTE", "SHL", "SHR", "SAR", "SIGNEXTEND"]
ALU1 = ["ISZERO", "NOT"]
ALU3 = ["ADDMOD", "MULMOD"]
HALTS = ["STOP", "RETURN", "REVERT", "INVALID", "SELFDESTRUCT"]


def pick_const(rng, B):
    r = rng.random()
    if r < 0.55:
        return rng.choice(B)
    if r < 0.75:
        return rng.getrandbits(rng.choice([1, 3, 8, 9, 16, 64, 160, 256]))
    if r < 0.9:
        return rng.randrange(0, 40)
    return rng.getrandbits(256)


# storage keys computed from constants; each value has exactly one expression
COMPUTED_KEYS = [(0xBFF0, 0x10, "ADD"), (2, 0x6001, "MUL"), (0xFFD, 0xD000, "SUB"), (1, 1, "ADD"),
                 (0xff, 0xC0FF, "AND"), (0xC01, 4, "SHL"), (("push", 1 << 255, 32), 1, "OR")]
COMPUTED_KEY_VALUES = {0xC000, 0xC002, 0xC003, 2, 0xff, 0xC010, (1 << 255) | 1}


class Gen:
    def __init__(self, rng, B, nblocks=None, allow=None):
        self.rng = rng
        self.B = B
        self.allow = allow or {}
        self.nblocks = nblocks if nblocks is not None else rng.randint(1, 6)
        self.a = evm.Asm()
        self.mem_offsets = set()
        self.keys = set()
        self.features = set()
        if self.allow.get("far"):
            # the whole program lives behind 64 KiB of padding that is jumped over: PC, jump targets and every code
            # offset are then three-byte quantities
            self.a = evm.Asm(label_width=3)
            self.a.jump("FAR0")
            self.a.emit(bytes([rng.choice([0x00, 0xfe, 0x5b])]) * rng.choice([65536, 65587, 70000, 131072]))
            self.a.label("FAR0")
            self.features.add("far-code")

    def push_const(self):
        v = pick_const(self.rng, self.B)
        if self.rng.random() < 0.15:
            width = self.rng.randint(max(1, (v.bit_length() + 7) // 8), 32)
            self.a.emit(("push", v, width))
        else:
            self.a.emit(v)

    def ensure(self, d, need):
        while d < need:
            self.push_const()
            d += 1
        return d

    def block_body(self, d, nops):
        rng = self.rng
        for _ in range(nops):
            r = rng.random()
            if r < 0.30:
                name = rng.choice(ALU2)
                d = self.ensure(d, 2)
                # bias operands for shift / byte / signextend / exp: put an interesting small/large constant on top
                if name in ("SHL", "SHR", "SAR", "BYTE", "SIGNEXTEND") and rng.random() < 0.7:
                    self.a.emit(rng.choice([0, 1, 7, 8, 30, 31, 32, 33, 255, 256, 257, 1 << 64, evm.M256,
                                            1 << 253, (1 << 253) + 1, (1 << 255)]))
                    d += 1
                    if rng.random() < 0.5:
                        pass
                self.a.emit(name)
                d -= 1
                self.features.add(name)
            elif r < 0.33:
                name = rng.choice(ALU1)
                d = self.ensure(d, 1)
                self.a.emit(name)
                self.features.add(name)
            elif r < 0.36:
                # the compiler's normalisation idioms: a comparison (or a word) combined with a constant, then
                # ISZERO ISZERO / ISZERO ISZERO ISZERO; each opcode still pushes one node recording its operation
                d = self.ensure(d, 2)
                self.a.emit(rng.choice(["LT", "GT", "EQ", "SLT", "XOR", "ADD"]))
                d -= 1
                if rng.random() < 0.7:
                    self.a.emit(rng.choice([1, 2, 3, 0xff, 1 << 255]), rng.choice(["OR", "AND", "XOR", "ADD"]))
                self.a.emit(*(["ISZERO"] * rng.choice([2, 2, 3])))
                self.features.add("ISZERO")
                self.features.add("normalise-idiom")
            elif r < 0.41:
                name = rng.choice(ALU3)
                d = self.ensure(d, 3)
                self.a.emit(name)
                d -= 2
                self.features.add(name)
            elif r < 0.55:
                self.push_const()
                d += 1
            elif r < 0.63:
                n = rng.randint(1, 16)
                if rng.random() < 0.5:
                    n = rng.randint(1, max(1, min(16, d))) if d else n
                d = self.ensure(d, n)
                self.a.emit("DUP%d" % n)
                d += 1
                self.features.add("DUP")
            elif r < 0.71:
                n = rng.randint(1, 16)
                if rng.random() < 0.5 and d > 1:
                    n = rng.randint(1, min(16, d - 1))
                d = self.ensure(d, n + 1)
                self.a.emit("SWAP%d" % n)
                self.features.add("SWAP")
            elif r < 0.75:
                d = self.ensure(d, 1)
                self.a.emit("POP")
                d -= 1
            elif r < 0.78:
                self.a.emit(rng.choice(["PC", "CODESIZE"]))
                d += 1
                self.features.add("PC/CODESIZE")
            elif r < 0.86:
                off = 32 * rng.randrange(0, 8)
                if rng.random() < 0.12:
                    # large but still word-aligned offsets (below 2^63; usize and EVM gas make anything larger moot)
                    off = rng.choice([1 << 32, (1 << 32) + 0x40, 1 << 40, (1 << 62) + 0x20, (1 << 32) + 32 * rng.randrange(0, 8)])
                self.mem_offsets.add(off)
                if rng.random() < 0.6:
                    d = self.ensure(d, 1)
                    if rng.random() < 0.2 and off >= 64:
                        # computed offset
                        self.a.emit(off - 32, 32, "ADD")
                    else:
                        self.a.emit(off)
                    self.a.emit("MSTORE")
                    d -= 1
                    self.features.add("MSTORE")
                else:
                    self.a.emit(off, "MLOAD")
                    d += 1
                    self.features.add("MLOAD")
            else:
                if rng.random() < 0.2:
                    # a key computed from constants: always by the same expression, and equal to no literal key
                    expr = rng.choice(COMPUTED_KEYS)
                    self.features.add("computed-key")
                    if rng.random() < 0.6:
                        d = self.ensure(d, 1)
                        self.a.emit(*expr)
                        self.a.emit("SSTORE")
                        d -= 1
                        self.features.add("SSTORE")
                    else:
                        self.a.emit(*expr)
                        self.a.emit("SLOAD")
                        d += 1
                        self.features.add("SLOAD")
                    continue
                key = rng.choice([0, 1, 2, 3, 5, 1 << 64, 1 << 200, evm.M256]) if rng.random() < 0.8 else pick_const(rng, self.B)
                if key in COMPUTED_KEY_VALUES:
                    key = 7
                self.keys.add(key)
                if rng.random() < 0.6:
                    d = self.ensure(d, 1)
                    self.a.emit(key if key else ("push", 0, 1), "SSTORE")
                    d -= 1
                    self.features.add("SSTORE")
                else:
                    self.a.emit(key if key else ("push", 0, 1), "SLOAD")
                    d += 1
                    self.features.add("SLOAD")
        return d

    def build(self):
        rng = self.rng
        nb = self.nblocks
        depth_in = {0: 0}
        njumpi = 0
        max_jumpi = self.allow.get("max_jumpi", 5)
        for i in range(nb):
            if i not in depth_in:
                # unreachable block: still emit something (dead code) but keep it stack-safe from depth 0
                depth_in[i] = 0
                self.features.add("dead-block")
            if i > 0:
                self.a.label("L%d" % i)
            d = depth_in[i]
            d = self.block_body(d, rng.randint(1, 9))
            last = i == nb - 1
            r = rng.random()
            if not last and r < 0.55 and njumpi < max_jumpi:
                # conditional forward jump
                j = rng.randint(i + 1, nb - 1)
                d = self.ensure(d, 1)
                self.a.jumpi("L%d" % j)
                d -= 1
                njumpi += 1
                depth_in[j] = min(depth_in.get(j, d), d)
                depth_in[i + 1] = min(depth_in.get(i + 1, d), d)
                self.features.add("JUMPI")
            elif not last and r < 0.7:
                j = rng.randint(i + 1, nb - 1)
                self.a.jump("L%d" % j)
                depth_in[j] = min(depth_in.get(j, d), d)
                self.features.add("JUMP")
            elif r < 0.76 and self.allow.get("bad_jumps"):
                # an unconditional jump to a constant that is no JUMPDEST: the path ends here, whatever follows
                self.a.emit(rng.choice([0xffffff, 0xfffffe, (1 << 32) + 5, evm.M256]), "JUMP")
                self.features.add("bad-JUMP")
            elif r < 0.85:
                h = rng.choice(HALTS if self.allow.get("halts", True) else ["STOP"])
                need = {"RETURN": 2, "REVERT": 2, "SELFDESTRUCT": 1}.get(h, 0)
                if need:
                    # small constant offsets/sizes so that memory slices stay tiny
                    for _ in range(need):
                        self.a.emit(rng.choice([0, 32]))
                    d += need
                self.a.emit(h)
                self.features.add(h)
            else:
                if not last:
                    depth_in[i + 1] = min(depth_in.get(i + 1, d), d)
        return self.a.assemble()


def straightline(rng, B, **kw):
    g = Gen(rng, B, **kw)
    code = g.build()
    return code, g


UNASSIGNED = [0x0c, 0x0f, 0x1e, 0x21, 0x2f, 0x49, 0x4f, 0x5c, 0x5e, 0xa5, 0xb0, 0xef, 0xf6, 0xfb]
KINDS = ["valid", "valid", "valid", "pushdata", "nonjumpdest", "oob", "oob-far", "big32", "big64", "max", "computed-valid",
         "computed-bad", "zero", "truncated-tail", "last-byte", "pc-relative", "codesize-relative"]


NOISE_OPS = sorted((n, pops, pushes) for (n, pops, pushes) in evm.OPS.values()
                   if n not in ("JUMP", "JUMPI", "STOP", "RETURN", "REVERT", "INVALID", "SELFDESTRUCT", "JUMPDEST", "SSTORE",
                                "SLOAD", "PC")
                   and not n.startswith(("PUSH", "DUP", "SWAP")))


def controlflow(rng, underflow_p=0.0, symbolic_p=0.0, big_stack_p=0.0, far_p=0.02):
    # a few programs live behind 64 KiB of padding: every jump target then needs three bytes
    far = rng.random() < far_p
    a = evm.Asm(label_width=3 if far else 2)
    if far:
        a.jump("FAR0")
        a.emit(bytes([rng.choice([0x00, 0xfe, 0x5b])]) * rng.choice([65536, 65600, 70000]))
        a.label("FAR0")
    nblocks = rng.randint(2, 7)
    feats = {"far-code"} if far else set()
    canaries = []
    has_jd = {i: (rng.random() < 0.75) for i in range(1, nblocks + 1)}

    def target_push(kind, j):
        name = "L%d" % j
        if kind == "valid":
            if has_jd[j]:
                a.push_label(name)
            else:
                a.push_label(name)
                feats.add("target:nonjumpdest")
                return
        elif kind == "pushdata":
            a.push_label("PD")
        elif kind == "truncated-tail":
            # a 0x5b byte inside the truncated immediate of the PUSH that ends the code
            if need_end:
                a.push_label("PD")
                kind = "pushdata"
            else:
                a.push_label("TT")
                need_tail.append(1)
        elif kind == "last-byte":
            # a JUMPDEST that is the very last byte of the code
            if need_tail:
                a.push_label(name)
                kind = "valid"
            else:
                a.push_label("END")
                need_end.append(1)
        elif kind == "nonjumpdest":
            a.push_expr(lambda L, n=name: L[n] + 1, a.label_width)
        elif kind == "oob":
            a.push_expr(lambda L: L["__len__"] + rng_k, a.label_width)
        elif kind == "oob-far":
            a.push_expr(lambda L: 0xffff, 2)
        elif kind == "big32":
            a.push_expr(lambda L, n=name: (rng_hi << 32) | L[n], 8)
        elif kind == "big64":
            a.push_expr(lambda L, n=name: (rng_hi << 64) | L[n], 12)
        elif kind == "max":
            a.emit(evm.M256)
        elif kind == "zero":
            a.emit(("push", 0, 1))
        elif kind == "symbolic":
            if rng.random() < 0.5:
                a.emit(rng.choice([("push", 0, 1), 4, 36]), "CALLDATALOAD")
            else:
                # an internal function pointer kept in storage: the only typing evidence for that slot is the jump
                # target expression itself
                a.emit(rng.choice([("push", 0, 1), 1, 0x33]), "SLOAD")
                if rng.random() < 0.7:
                    a.emit(rng.choice([[0xff, "AND"], [0xffff, "AND"], [("push", 0xffffffff, 4), "AND"],
                                       [0x40, "SHR", ("push", 0xffffffffffffffff, 8), "AND"]]))
                feats.add("target:symbolic-from-storage")
        elif kind == "computed-valid":
            c = rng.randint(1, 9)
            a.push_expr(lambda L, n=name, c=c: L[n] - c, a.label_width)
            a.emit(c, "ADD")
        elif kind == "pc-relative":
            # PC + constant: the library knows PC concretely, so this folds to a constant target
            pcs.append(1)
            pn = "PC%d" % len(pcs)
            a.mark(pn)
            a.emit("PC")
            a.push_expr(lambda L, n=name, pn=pn: L[n] - L[pn], a.label_width)
            a.emit("ADD")
        elif kind == "codesize-relative":
            a.push_expr(lambda L, n=name: L["__len__"] - L[n], a.label_width)
            a.emit("CODESIZE", "SUB")
        elif kind == "computed-bad":
            c = rng.randint(1, 9)
            a.push_expr(lambda L, n=name, c=c: L[n] + 1 - c, a.label_width)
            a.emit(c, "ADD")
        feats.add("target:" + kind)

    rng_k = rng.randint(0, 40)
    rng_hi = rng.randint(1, 0xffff)
    need_tail = []
    need_end = []
    pcs = []
    # a push whose immediate contains JUMPDEST bytes; PD names the second byte of the immediate
    a.mark_at("PD", 2)
    a.emit(("push", 0x5b5b5b, 3), "POP")
    for i in range(nblocks):
        if i > 0:
            if has_jd[i]:
                a.label("L%d" % i)
            else:
                a.mark("L%d" % i)
        # body: a canary store so that executing this block is visible in storage too
        slot = 0x100 + len(canaries)
        if rng.random() < 0.8:
            a.mark("C%d" % len(canaries))
            a.emit(rng.randint(1, 255), slot, "SSTORE")
            canaries.append(slot)
        for _ in range(rng.randint(0, 3)):
            a.emit(rng.choice([0, 1, 7, 0xff]), "POP")
        if rng.random() < 0.5:
            # one instruction of any kind that does not touch control flow, with its operands supplied and its results
            # dropped: execution must simply carry on behind it
            nm, pops, pushes = rng.choice(NOISE_OPS)
            for _ in range(pops):
                a.emit(rng.choice([0, 1, 32, 64]))
            a.emit(nm)
            for _ in range(pushes):
                a.emit("POP")
            feats.add("noise:" + nm)
        if rng.random() < underflow_p:
            # an instruction that needs more operands than the (empty) stack holds
            a.emit(rng.choice(["ADD", "POP", "DUP1", "SWAP1", "MSTORE", "SSTORE", "ISZERO", "JUMP", "JUMPI", "DUP16",
                               "ADDMOD", "RETURN", "LOG2", "SHA3"]))
            feats.add("underflow")
        if rng.random() < big_stack_p:
            a.emit(bytes([0x5f]) * rng.choice([1022, 1023, 1024, 1024, 1025, 1030]))
            # ... and one more instruction at (or next to) the full stack: every way of growing, keeping or shrinking it
            a.emit(rng.choice([["DUP1"], ["DUP16"], ["DUP7"], ["PUSH0"], [("push", 7, 1)], ["CALLER"], ["PC"], ["MSIZE"],
                               ["SWAP1"], ["SWAP16"], ["ADD"], ["ISZERO"], ["SLOAD"], ["MLOAD"], ["CALLDATASIZE"],
                               ["DUP1", "DUP1"], ["POP", "DUP1"], ["GAS"], ["CODESIZE"], ["ADDRESS"]]))
            feats.add("big-stack")
        last = i == nblocks - 1
        r = rng.random()
        later = [j for j in range(i + 1, nblocks)]
        if later and r < 0.45:
            j = rng.choice(later)
            kind = "symbolic" if rng.random() < symbolic_p else rng.choice(KINDS)
            cond = rng.choice(["const1", "const0", "sym"])
            if cond == "sym":
                a.emit("CALLVALUE")
            else:
                a.emit(("push", 1 if cond == "const1" else 0, 1))
            target_push(kind, j)
            a.emit("JUMPI")
            feats.add("JUMPI")
        elif later and r < 0.75:
            j = rng.choice(later)
            target_push("symbolic" if rng.random() < symbolic_p else rng.choice(KINDS), j)
            a.emit("JUMP")
            feats.add("JUMP")
        elif r < 0.93:
            h = rng.choice(["STOP", "RETURN", "REVERT", "INVALID", "SELFDESTRUCT", "unassigned"])
            if h == "unassigned":
                a.emit(bytes([rng.choice(UNASSIGNED)]))
            else:
                need = {"RETURN": 2, "REVERT": 2, "SELFDESTRUCT": 1}.get(h, 0)
                for _ in range(need):
                    a.emit(("push", 0, 1))
                a.emit(h)
            feats.add("halt:" + h)
    # the code may end in a PUSH whose immediate is cut short; TT names a 0x5b byte inside what is left of it
    if need_end or rng.random() < 0.9:
        a.emit("STOP")
    else:
        feats.add("runs-off-the-end")
    a.mark_at("TT", 2)
    if need_end:
        a.label("END")
        feats.add("ends-in-jumpdest")
    elif need_tail or rng.random() < 0.2:
        a.emit(bytes([rng.choice([0x62, 0x7f, 0x6f]), 0x5b, 0x5b]))
        feats.add("truncated-tail-present")
    a.labels = {}
    code = a.assemble()
    canary_offsets = {a.labels["C%d" % k]: canaries[k] for k in range(len(canaries))}
    return code, feats, canary_offsets




def cyclic_types(rng):
    """Storage accesses whose type evidence is cyclic through a *container*: an element of the array / mapping at slot
    s receives the value of slot s itself (T = array<T>, T = mapping<K, T>), directly, through a second slot, through
    two levels of nesting, or the other way round (the slot receives its own element). Returns (code, feats)."""
    a = evm.Asm()
    feats = set()
    slots = rng.sample(range(0, 6), rng.randint(1, 3))

    def spush(s):
        a.emit(s if s else ("push", 0, 1))

    def element(s, kind):
        """Leaves the storage key of an element of the container at slot s on the stack."""
        if kind == "dyn":
            spush(s)
            a.emit(0, "MSTORE", 0x20, 0, "SHA3", rng.choice([[4, "CALLDATALOAD"], [0], [1], ["CALLVALUE"]]), "ADD")
        elif kind == "map":
            a.emit(rng.choice(["CALLER", [4, "CALLDATALOAD"]]), 0, "MSTORE")
            spush(s)
            a.emit(0x20, "MSTORE", 0x40, 0, "SHA3")
        elif kind == "map-map":
            a.emit("CALLER", 0, "MSTORE")
            spush(s)
            a.emit(0x20, "MSTORE", 0x40, 0, "SHA3", 0x20, "MSTORE", 4, "CALLDATALOAD", 0, "MSTORE", 0x40, 0, "SHA3")
        elif kind == "map-dyn":
            a.emit("CALLER", 0, "MSTORE")
            spush(s)
            a.emit(0x20, "MSTORE", 0x40, 0, "SHA3", 0, "MSTORE", 0x20, 0, "SHA3", 4, "CALLDATALOAD", "ADD")
        else:  # dyn-dyn
            spush(s)
            a.emit(0, "MSTORE", 0x20, 0, "SHA3", 4, "CALLDATALOAD", "ADD", 0, "MSTORE", 0x20, 0, "SHA3", 36,
                   "CALLDATALOAD", "ADD")
    for _ in range(rng.randint(1, 4)):
        kind = rng.choice(["dyn", "dyn", "map", "map", "map-map", "map-dyn", "dyn-dyn"])
        s = rng.choice(slots)
        t = rng.choice(slots)
        direction = rng.choice(["element<-slot", "slot<-element", "element<-element"])
        feats.add("cycle:%s:%s%s" % (kind, direction, "" if s == t else ":two-slots"))
        if direction == "element<-slot":
            spush(t)
            a.emit("SLOAD")
            if rng.random() < 0.3:
                a.emit(("push", (1 << rng.choice([8, 160])) - 1, None), "AND")
            element(s, kind)
            a.emit("SSTORE")
        elif direction == "slot<-element":
            element(s, kind)
            a.emit("SLOAD")
            spush(t)
            a.emit("SSTORE")
        else:
            element(t, rng.choice(["dyn", "map"]))
            a.emit("SLOAD")
            element(s, kind)
            a.emit("SSTORE")
    a.emit("STOP")
    return a.assemble(), feats


def error_storm(rng):
    """Many forked threads, each of which dies on a failing opcode after a few instructions (stack underflow, a JUMP to
    a bad target, an unassigned opcode), while the forking thread carries on. Returns (code, feats)."""
    a = evm.Asm()
    k = rng.randint(4, 24)
    feats = {"error-storm"}
    for i in range(k):
        a.emit(rng.choice(["CALLVALUE", [4 + 32 * (i % 4), "CALLDATALOAD"], "CALLDATASIZE"]))
        a.jumpi("E%d" % i)
        for _ in range(rng.randint(0, 3)):
            a.emit(rng.randint(0, 255), "POP")
    a.emit(rng.choice([["STOP"], ["ADD"], [0xffff, "JUMP"]]))
    for i in range(k):
        a.label("E%d" % i)
        for _ in range(rng.randint(0, 4)):
            a.emit(rng.randint(0, 255), rng.choice(["POP", "ISZERO", ["DUP1", "ADD"]]))
            if rng.random() < 0.5:
                a.emit("POP")
        how = rng.choice(["underflow", "underflow", "bad-jump", "oob-jump", "unassigned", "pushdata-jump"])
        feats.add("dies:" + how)
        if how == "underflow":
            a.emit(rng.choice(["POP", "POP", "POP"]), rng.choice(["ADD", "MSTORE", "SSTORE", "SWAP1", "DUP3", "LOG1", "SHA3"]))
        elif how == "bad-jump":
            a.emit(1, "JUMP")
        elif how == "oob-jump":
            a.emit(0xfff0 + i, "JUMP")
        elif how == "pushdata-jump":
            a.push_expr(lambda L, n="E%d" % i: L[n] + 2, 2)
            a.emit("JUMP")
        else:
            a.emit(bytes([rng.choice(UNASSIGNED)]))
    return a.assemble(), feats


def full_stack(rng):
    """The stack is filled to within a few items of its 1024 limit (by pushes, DUPs or a mix), then a short run of
    instructions that grow, keep or shrink it is executed at the limit. Returns (code, feats)."""
    a = evm.Asm()
    n = rng.choice([1020, 1022, 1023, 1023, 1024, 1024, 1024, 1025])
    how = rng.choice(["push0", "push1", "dup", "mixed"])
    if how == "push0":
        a.emit(bytes([0x5f]) * n)
    elif how == "push1":
        a.emit(bytes([0x60, 0x01]) * n)
    elif how == "dup":
        a.emit("CALLVALUE", bytes([0x80]) * (n - 1))
    else:
        a.emit("CALLER", "CALLVALUE")
        for _ in range(n - 2):
            a.emit(rng.choice([bytes([0x5f]), bytes([0x80]), bytes([0x81]), bytes([0x33])]))
    feats = {"full-stack", "fill:" + how}
    for _ in range(rng.randint(1, 4)):
        ins = rng.choice(["DUP1", "DUP2", "DUP16", "PUSH0", "CALLER", "PC", "MSIZE", "GAS", "SWAP1", "SWAP16", "ADD",
                          "ISZERO", "SLOAD", "MLOAD", "POP", "CALLDATASIZE", "ADDRESS", "EQ"])
        a.emit(ins)
        feats.add("at-limit:" + ins)
    a.emit(rng.choice([["STOP"], [0, 0, "RETURN"], ["POP", "POP", "STOP"]]))
    return a.assemble(), feats


def shared_fault(rng):
    """Several paths converge on one faulting instruction with *different* operands: a shared JUMP / JUMPI whose
    target differs per path (non-JUMPDEST, out of range, >= 2^32, symbolic, valid), or a shared instruction that
    underflows on one path and not on another. Returns (code, feats)."""
    a = evm.Asm()
    feats = set()
    npaths = rng.randint(2, 4)
    sink = rng.choice(["JUMP", "JUMPI", "underflow"])
    feats.add("shared:" + sink)

    def target():
        k = rng.choice(["zero", "one", "oob", "oob-far", "big", "symbolic", "valid", "pushdata"])
        feats.add("shared-target:" + k)
        if k == "zero":
            a.emit(("push", 0, 1))
        elif k == "one":
            a.emit(1)
        elif k == "oob":
            a.push_expr(lambda L: L["__len__"] + 3, 2)
        elif k == "oob-far":
            a.emit(0xffff)
        elif k == "big":
            a.push_expr(lambda L: (1 << 32) | L["OK"], 8)
        elif k == "symbolic":
            a.emit(4, "CALLDATALOAD")
        elif k == "pushdata":
            a.push_label("PD")
        else:
            a.push_label("OK")
    a.mark_at("PD", 2)
    a.emit(("push", 0x5b5b5b, 3), "POP")
    for i in range(npaths - 1):
        a.emit(rng.choice(["CALLVALUE", [36 + 32 * i, "CALLDATALOAD"]]))
        a.jumpi("P%d" % i)
    # the first block is the fall-through path
    order = [None] + list(range(npaths - 1))
    for i in order:
        if i is not None:
            a.label("P%d" % i)
        if sink == "underflow":
            # one or two operands for an instruction that needs two
            for _ in range(rng.choice([0, 1, 2])):
                a.emit(rng.randint(0, 9))
        else:
            if sink == "JUMPI":
                a.emit(rng.choice(["CALLVALUE", 1, ("push", 0, 1)]))
            target()
        a.jump("TAIL")
    a.label("TAIL")
    if sink == "underflow":
        a.emit(rng.choice(["ADD", "MSTORE", "SSTORE", "SWAP1", "DUP2"]), "STOP")
    else:
        a.emit(sink)
        a.emit(rng.randint(1, 200), 0x200, "SSTORE", "STOP")
    a.label("OK")
    a.emit(rng.randint(1, 200), 0x201, "SSTORE", "STOP")
    return a.assemble(), feats


def loopy(rng):
    """Programs with arbitrary (backward and forward) jumps: self-loops, nested loops, jump tables, fork bombs,
    stack-growing loops and gas burners. Not stack-safe on purpose (an underflow just ends a thread)."""
    a = evm.Asm()
    feats = set()
    shape = rng.choice(["random", "random", "selfloop", "forkbomb", "nested", "growstack", "gasburn", "table", "fallthru2"])
    feats.add("shape:" + shape)
    cond = lambda: a.emit(rng.choice(["CALLVALUE", "CALLDATASIZE", ("push", 1, 1), ("push", 0, 1), "CALLER"]))
    if shape == "selfloop":
        a.label("L0")
        for _ in range(rng.randint(0, 2)):
            a.emit(rng.choice([1, 2, 3]), "POP")
        if rng.random() < 0.5:
            a.jump("L0")
        else:
            cond()
            a.jumpi("L0")
            a.emit(rng.choice(["STOP", "JUMPDEST"]))
    elif shape == "forkbomb":
        k = rng.randint(2, 14)
        targets = rng.randint(1, 3)
        for r in range(rng.randint(1, 3)):
            for i in range(k):
                cond()
                a.jumpi("T%d" % rng.randrange(targets))
        a.emit("STOP")
        for t in range(targets):
            a.label("T%d" % t)
            for i in range(rng.randint(0, 4)):
                cond()
                a.jumpi("T%d" % rng.randrange(targets))
            if rng.random() < 0.5:
                a.emit(rng.randint(0, 5), "SLOAD", "POP")
        a.emit("STOP")
    elif shape == "nested":
        a.label("OUT")
        a.emit(rng.randint(0, 3), "SLOAD", "POP")
        a.label("IN")
        a.emit(rng.randint(0, 3), "SLOAD", rng.randint(0, 3), "SSTORE")
        cond()
        a.jumpi("IN")
        cond()
        a.jumpi("OUT")
        a.emit("STOP")
    elif shape == "growstack":
        a.label("L0")
        for _ in range(rng.randint(1, 4)):
            a.emit(rng.choice([1, "CALLVALUE", "DUP1" if rng.random() < 0.3 else 7]))
        if rng.random() < 0.5:
            a.jump("L0")
        else:
            cond()
            a.jumpi("L0")
            a.emit("STOP")
    elif shape == "gasburn":
        a.label("L0")
        for _ in range(rng.randint(1, 3)):
            what = rng.choice(["sload", "log", "sstore", "create", "selfdestruct-branch", "exp"])
            if what == "sload":
                a.emit(rng.randint(0, 9), "SLOAD", "POP")
            elif what == "log":
                a.emit(0, 0, "LOG0")
            elif what == "sstore":
                a.emit(1, rng.randint(0, 9), "SSTORE")
            elif what == "create":
                a.emit(0, 0, 0, "CREATE", "POP")
            elif what == "exp":
                a.emit(3, "CALLVALUE", "EXP", "POP")
            else:
                cond()
                a.jumpi("SD")
        cond()
        a.jumpi("L0")
        a.emit("STOP")
        a.label("SD")
        a.emit("CALLER", "SELFDESTRUCT")
    elif shape == "table":
        k = rng.randint(2, 8)
        for i in range(k):
            a.emit("CALLVALUE", i, "EQ")
            a.jumpi("C%d" % i)
        a.emit("STOP")
        for i in range(k):
            a.label("C%d" % i)
            a.emit(i, "SLOAD", "POP")
            if rng.random() < 0.3:
                a.jump("C%d" % rng.randrange(k))
            elif rng.random() < 0.5:
                a.emit("STOP")
    elif shape == "fallthru2":
        a.label("A")
        a.label("B")
        cond()
        a.jumpi(rng.choice(["A", "B"]))
        a.emit(0)
        a.emit("JUMP") if rng.random() < 0.7 else a.jump("B")
    else:
        n = rng.randint(1, 6)
        for i in range(n):
            a.label("L%d" % i)
            for _ in range(rng.randint(0, 4)):
                r = rng.random()
                if r < 0.3:
                    a.emit(rng.randint(0, 300), "POP")
                elif r < 0.5:
                    a.emit(rng.randint(0, 5), "SLOAD", "POP")
                elif r < 0.6:
                    a.emit("CALLVALUE", rng.randint(0, 5), "SSTORE")
                elif r < 0.7:
                    a.emit(rng.choice([1, "CALLVALUE"]))
                elif r < 0.8:
                    a.emit(0, 32 * rng.randint(0, 3), "MSTORE")
                else:
                    a.emit("CALLVALUE", "CALLER", rng.choice(["ADD", "MUL", "AND"]), "POP")
            r = rng.random()
            if r < 0.45:
                cond()
                a.jumpi("L%d" % rng.randrange(n))
            elif r < 0.65:
                a.jump("L%d" % rng.randrange(n))
            elif r < 0.8:
                a.emit(rng.choice(["STOP", "INVALID"]))
    return a.assemble(), feats


def read_mask_write(rng):
    """Storage read-mask-write programs over 2-3 slots: cyclic type evidence between slots."""
    a = evm.Asm()
    slots = [1, 2, 3][:rng.randint(2, 3)]
    masks = [0xff, 0xffff, 0xffffffff, (1 << 160) - 1, (1 << 64) - 1, 0xff00, 0xffff0000, 1]
    for _ in range(rng.randint(2, 7)):
        r = rng.random()
        src = rng.choice(slots)
        dst = rng.choice(slots)
        if r < 0.3:
            a.emit(src, "SLOAD", rng.choice(masks), "AND", dst, "SSTORE")
        elif r < 0.5:
            a.emit("CALLVALUE", "ISZERO", dst, "SSTORE")
        elif r < 0.75:
            k = rng.choice([8, 16, 32, 160])
            a.emit(src, "SLOAD", 1 << k, "MUL", rng.choice(slots), "SLOAD", "OR", rng.choice(masks), "AND", dst, "SSTORE")
        elif r < 0.9:
            k = rng.choice([8, 16, 32, 160])
            a.emit(src, "SLOAD", k, "SHR", rng.choice(masks), "AND", dst, "SSTORE")
        else:
            a.emit(src, "SLOAD", dst, "SSTORE")
    return a.assemble(), {"rmw"}


# ---------------------------------------------------------------------------------------------- storage look-alikes

# slot numbers whose bytes read as text (hand-placed "named" storage)
TEXT_SLOTS = [int.from_bytes(n.ljust(32, b"\0"), "big") for n in (b"balances", b"owner", b"my.storage.slot")]


def _hash_mapping(a, rng, slot_const):
    """keccak(key || slot_const) left on the stack (the mapping idiom), key symbolic."""
    a.emit(rng.choice(["CALLER", "CALLVALUE", 4]), *(["CALLDATALOAD"] if rng.random() < 0.4 else []))
    a.emit(0, "MSTORE", slot_const if slot_const else ("push", 0, 1), 0x20, "MSTORE", 0x40, 0, "SHA3")


def _hash_array(a, rng, slot_const, prefolded_hash=None):
    """keccak(slot_const) + i left on the stack (the dynamic array idiom)."""
    if prefolded_hash is not None:
        a.emit(("push", prefolded_hash, 32))
    else:
        a.emit(slot_const if slot_const else ("push", 0, 1), 0, "MSTORE", 0x20, 0, "SHA3")
    a.emit(4, "CALLDATALOAD", "ADD")


def _sink(a, rng, allow_value_side=False, with_real=None):
    """Consumes the top of the stack in a way that is not a storage *key*."""
    sinks = ["pop", "mstore", "log", "return", "call-arg", "revert", "eq-jumpi", "later-fork-opcode"]
    if allow_value_side:
        sinks += ["sstore-value"]
    if with_real is not None:
        sinks += ["cmp-with-sload", "cmp-with-sload", "xor-with-sload"]
    s = rng.choice(sinks)
    if s == "pop":
        a.emit("POP")
    elif s == "mstore":
        a.emit(0x80, "MSTORE")
    elif s == "log":
        a.emit(0x80, "MSTORE", 0x20, 0x80, "LOG0")
    elif s == "return":
        a.emit(0x80, "MSTORE", 0x20, 0x80, "RETURN")
    elif s == "revert":
        a.emit(0x80, "MSTORE", 0x20, 0x80, "REVERT")
    elif s == "call-arg":
        a.emit(0x80, "MSTORE", 0, 0, 0x20, 0x80, 0, "CALLER", "GAS", "CALL", "POP")
    elif s == "eq-jumpi":
        a.emit("CALLVALUE", "EQ", "POP")
    elif s == "later-fork-opcode":
        # bytes that are not instructions in the fork the tool models (transient storage, MCOPY, blob opcodes, plain
        # unassigned ones): with the value as an operand they must not turn into storage accesses
        a.emit("CALLVALUE", "SWAP1", bytes([rng.choice([0x5c, 0x5d, 0x5d, 0x5e, 0x49, 0x4a, 0x0c, 0xb0, 0xf6])]))
    elif s == "sstore-value":
        a.emit(0x40 + rng.randrange(4), "SSTORE")
    elif s == "cmp-with-sload":
        # the hash is compared with a value read from a real slot: one expression tree holds both
        a.emit(with_real, "SLOAD", rng.choice(["EQ", "LT", "GT"]), rng.choice(["POP", [0x80, "MSTORE"]]))
    elif s == "xor-with-sload":
        a.emit(with_real, "SLOAD", rng.choice(["XOR", "ADD", "AND"]), 0x80, "MSTORE", 0x20, 0x80, rng.choice(["RETURN", "LOG0"]))
    return s


def lookalike(rng, hash_table_items, with_storage=False, allow_value_side=False):
    """Programs full of keccak(key||const), keccak(const)+i, literal hashes of small integers, masks and arithmetic.
    Without `with_storage` no SLOAD/SSTORE byte is ever executed. Returns (code, info)."""
    a = evm.Asm()
    info = {"fake_slots": set(), "real_slots": set(), "sinks": set(), "value_side": set()}
    nb = rng.randint(1, 5)
    a.emit(0, "CALLDATALOAD", 0xe0, "SHR")
    for b in range(nb):
        a.emit("DUP1", ("push", 0xb0000000 + b, 4), "EQ")
        a.jumpi("B%d" % b)
    a.emit("STOP")
    for b in range(nb):
        a.label("B%d" % b)
        for _ in range(rng.randint(1, 4)):
            r = rng.random()
            fake = rng.choice([0, 1, 2, 3, 5, 9, 17, 200, 9999, 1 << 64])
            if r < 0.30:
                _hash_mapping(a, rng, fake)
                if rng.random() < 0.3:
                    # nested
                    a.emit(0x20, "MSTORE", "CALLER", 0, "MSTORE", 0x40, 0, "SHA3")
                if rng.random() < 0.35:
                    # a struct member of the mapping's value: keccak(key . const) + small constant
                    a.emit(rng.randint(1, 9), *(["ADD"] if rng.random() < 0.7 else ["SWAP1", "ADD"]))
            elif r < 0.55:
                _hash_array(a, rng, fake)
            elif r < 0.7 and hash_table_items:
                h, i = rng.choice(hash_table_items)
                fake = i
                _hash_array(a, rng, i, prefolded_hash=h)
            elif r < 0.8:
                a.emit("CALLVALUE", ("push", (1 << 160) - 1, 20), "AND", fake, "ADD")
            else:
                a.emit(("push", rng.getrandbits(256), 32), fake, "XOR")
            info["fake_slots"].add(fake)
            real_for_sink = rng.choice([0x10, 0x11, 0x12]) if (with_storage and rng.random() < 0.5) else None
            s = _sink(a, rng, allow_value_side and with_storage, real_for_sink)
            if real_for_sink is not None and s in ("cmp-with-sload", "xor-with-sload"):
                info["real_slots"].add(real_for_sink)
            info["sinks"].add(s)
            if s == "sstore-value":
                info["value_side"].add(fake)
                info["real_slots"].update(range(0x40, 0x44))
            if s in ("return", "revert", "xor-with-sload"):
                break
        if with_storage and rng.random() < 0.8:
            real = rng.choice([0x10, 0x11, 0x12, 0x13, 0x14, 0x10, 0x11] + TEXT_SLOTS)
            info["real_slots"].add(real)
            k = rng.random()
            if k < 0.3:
                a.emit(real, "SLOAD", "POP")
            elif k < 0.55:
                a.emit("CALLVALUE", real, "SSTORE")
            elif k < 0.8:
                _hash_mapping(a, rng, real)
                a.emit("SLOAD", "POP")
            else:
                a.emit("CALLVALUE")
                _hash_array(a, rng, real)
                a.emit("SSTORE")
        a.emit("STOP")
    return a.assemble(), info


def lift_shapes(rng, B):
    """The operand shapes the lifting passes pattern-match on, with hostile constants where they expect well-behaved
    ones: (x OP c) and (c OP x) for multiplicative / shifting / additive / bitwise OP, x symbolic (a storage load, call
    data, the caller), c a boundary constant (0, 1, 2, non-powers of two, 2^255, 2^256-1 ...); bare, under a mask (on
    either side), under a second such operation, under both; stored, used as a key, logged. A division by a literal
    zero under a mask, a multiplication by zero inside a packed word, a shift by 2^256-1 and the like all reach the
    lifting passes because one operand is symbolic, so nothing is folded away first."""
    a = evm.Asm()
    feats = {"lift-shapes"}
    ops = ["DIV", "MUL", "SHL", "SHR", "SAR", "EXP", "SDIV", "MOD", "SMOD", "AND", "OR", "XOR", "SUB", "ADD", "SIGNEXTEND", "BYTE"]
    small = [0, 0, 0, 1, 2, 3, 5, 7, 8, 0x100, 0x10000, 1 << 160, 1 << 255, evm.M256, evm.M256 - 1]
    masks = [0xff, 0xffff, (1 << 160) - 1, 0xff00, 1, 0, evm.M256, (1 << 128) - 1, 0xffffffff << 32]

    def sym():
        k = rng.random()
        if k < 0.4:
            a.emit(rng.randint(0, 3), "SLOAD")
        elif k < 0.7:
            a.emit(rng.choice([0, 4, 36]), "CALLDATALOAD")
        elif k < 0.85:
            a.emit(rng.choice(["CALLER", "CALLVALUE", "TIMESTAMP"]))
        else:
            a.emit(rng.randint(0, 3), "SLOAD", rng.choice(masks), "AND")

    def const():
        c = rng.choice(small) if rng.random() < 0.7 else rng.choice(B)
        a.emit(("push", c, rng.choice([1, 32])) if c < 256 and rng.random() < 0.3 else c)

    def binop():
        op = rng.choice(ops)
        # EVM operand order: the first operand is on top of the stack, so it is pushed last
        if rng.random() < 0.5:
            const()
            sym()
        else:
            sym()
            const()
        a.emit(op)
        feats.add("op:" + op)

    for _ in range(rng.randint(1, 5)):
        binop()
        layers = rng.randint(0, 2)
        for _l in range(layers):
            k = rng.random()
            if k < 0.5:
                a.emit(rng.choice(masks), "AND")
            elif k < 0.65:
                a.emit(rng.choice(masks), "SWAP1", "AND")
            elif k < 0.85:
                const()
                a.emit(rng.choice(ops))
            else:
                const()
                a.emit("SWAP1", rng.choice(ops))
        use = rng.random()
        if use < 0.5:
            a.emit(rng.randint(0, 3), "SSTORE")
        elif use < 0.65:
            a.emit("SLOAD", "POP")
        elif use < 0.8:
            a.emit(rng.randint(0, 3), "SLOAD", "OR", rng.randint(0, 3), "SSTORE")
        elif use < 0.9:
            a.emit(0x80, "MSTORE", 0x20, 0x80, "LOG0")
        else:
            a.emit("CALLVALUE", "SWAP1", "SSTORE")
    a.emit("STOP")
    return a.assemble(), feats


def hash_constants(rng, items):
    """Straight-line programs whose constants are the literal keccak hashes of small slot numbers (what an optimising
    compiler emits for dynamic arrays): alone, offset by constants and by call data, combined with each other, as the
    slot word of a mapping hash, negated; used as storage keys, as stored values, in logs. These are the leaves that a
    lifting pass rewrites into trees (`sha3(n)`), so sizes memoised on leaves are exercised after lifting."""
    a = evm.Asm()
    feats = {"hash-constants"}
    for _ in range(rng.randint(1, 6)):
        h, _i = rng.choice(items)
        a.emit(("push", h, 32))
        k = rng.random()
        if k < 0.2:
            a.emit(4, "CALLDATALOAD", "ADD")
        elif k < 0.35:
            a.emit(rng.randint(0, 7), "ADD")
        elif k < 0.5:
            h2, _j = rng.choice(items)
            a.emit(("push", h2, 32), rng.choice(["ADD", "XOR", "AND", "LT", "SUB"]))
        elif k < 0.65:
            a.emit(0x20, "MSTORE", "CALLER", 0, "MSTORE", 0x40, 0, "SHA3")
        elif k < 0.75:
            a.emit(rng.choice(["NOT", "ISZERO"]))
        use = rng.random()
        if use < 0.35:
            a.emit("SLOAD", 0x80, "MSTORE")
        elif use < 0.6:
            a.emit("CALLVALUE", "SWAP1", "SSTORE")
        elif use < 0.8:
            a.emit(rng.randint(0, 5), "SSTORE")
        elif use < 0.9:
            a.emit(0xa0, "MSTORE", 0x20, 0xa0, "LOG0")
        else:
            a.emit("POP")
    a.emit("STOP")
    return a.assemble(), feats


def literal_keys(rng, B, size_hint=None):
    """Programs performing SLOAD / SSTORE with literal constant keys placed on the first path, behind forks, in
    threads that die afterwards, and amid noise. Returns (code, keys)."""
    a = evm.Asm()
    keys = {}
    nb = rng.randint(1, 5)

    def access():
        k = rng.choice(B) if rng.random() < 0.7 else rng.getrandbits(rng.choice([8, 64, 65, 128, 129, 255, 256]))
        mode = rng.choice(["r", "w", "rw", "wr", "rmw-mask", "rmw-or", "rmw-add", "rmw-packed", "copy", "rmw-shift",
                           "w-near-limit"])
        keys.setdefault(k, set()).add(mode)
        kp = k if k else ("push", 0, 1)
        if rng.random() < 0.3:
            kp = ("push", k, 32)
        masks = [0xff, 0xffff, (1 << 160) - 1, (1 << 128) - 1, evm.M256 ^ 0xff, evm.M256 ^ (0xffff << 8), 1, 0xff00]
        if mode == "w-near-limit":
            # the stored value has (almost) exactly value_size_limit nodes
            limit = size_hint or 250
            n = max(1, limit + rng.choice([-2, -1, -1, 0, 0, 1]))
            a.emit(rng.choice(["CALLDATASIZE", "CALLVALUE"]))
            a.emit(bytes([0x19]) * (n - 1))
            a.emit(kp, "SSTORE")
            return
        if mode == "rmw-mask":
            a.emit(kp, "SLOAD", ("push", rng.choice(masks), None), "AND", kp, "SSTORE")
            return
        if mode == "rmw-or":
            a.emit(kp, "SLOAD", ("push", evm.M256 ^ 0xffff, 32), "AND", kp, "SLOAD", ("push", 0xffff, None), "AND", "OR", kp, "SSTORE")
            return
        if mode == "rmw-add":
            a.emit(kp, "SLOAD", rng.choice([1, 2, 32]), rng.choice(["ADD", "MUL", "SUB", "XOR"]), kp, "SSTORE")
            return
        if mode == "rmw-packed":
            off, w = rng.choice([0, 8, 160]), rng.choice([8, 64])
            m = (1 << w) - 1
            a.emit(kp, "SLOAD", ("push", evm.M256 ^ (m << off), 32), "AND", "CALLVALUE", ("push", m, None), "AND")
            if off:
                a.emit(("push", 1 << off, None), "MUL")
            a.emit("OR", kp, "SSTORE")
            return
        if mode == "rmw-shift":
            a.emit(kp, "SLOAD", rng.choice([8, 128, 160]), rng.choice(["SHR", "SHL"]), ("push", rng.choice(masks), None), "AND", kp, "SSTORE")
            return
        if mode == "copy":
            k2 = rng.choice(list(keys)) if rng.random() < 0.7 else rng.choice(B)
            keys.setdefault(k2, set()).add("r")
            a.emit(k2 if k2 else ("push", 0, 1), "SLOAD", kp, "SSTORE")
            return
        for m in mode:
            if m == "r":
                a.emit(kp, "SLOAD", rng.choice(["POP", "POP", "ISZERO"]))
                if rng.random() < 0.3:
                    a.emit("POP") if False else None
            else:
                a.emit(rng.choice(["CALLVALUE", "CALLER", 1, ("push", 0, 1)]), kp, "SSTORE")

    def noise():
        r = rng.random()
        if r < 0.3:
            a.emit("CALLVALUE")
            for _ in range(rng.randint(1, 12)):
                a.emit("DUP1", rng.choice(["MUL", "ADD"]))
            a.emit("POP")
        elif r < 0.5:
            a.emit("CALLVALUE", 0, "MSTORE", 0x20, 0, "SHA3", "POP")
        elif r < 0.7:
            a.emit(4, "CALLDATALOAD", ("push", (1 << 160) - 1, 20), "AND", "POP")

    if rng.random() < 0.6:
        access()
    for b in range(nb):
        a.emit(rng.choice(["CALLVALUE", "CALLDATASIZE", 1, ("push", 0, 1)]))
        a.jumpi("B%d" % b)
        if rng.random() < 0.4:
            noise()
    if rng.random() < 0.5:
        access()
    a.emit(rng.choice(["STOP", "INVALID", ["CALLVALUE", "JUMP"], [0xffff, "JUMP"]]))
    for b in range(nb):
        a.label("B%d" % b)
        noise()
        for _ in range(rng.randint(1, 3)):
            access()
        # the thread then ends in one of several ways, some of them errors
        a.emit(rng.choice(["STOP", [0xfffd, "JUMP"], [0xfffe, "JUMP"], ["CALLVALUE", "JUMP"], "INVALID",
                           [0, 0, "REVERT"], ["CALLER", "SELFDESTRUCT"], [3, "JUMP"]]))
    return a.assemble(), keys


def typed_widths(rng):
    """Whole-word values whose reported *width* comes from a constant in the code (SIGNEXTEND size, CALLDATACOPY /
    CODECOPY / RETURNDATACOPY length, BYTE index, masks), with the constant taken from a hostile set and placed in
    either operand position, stored whole into a constant slot (directly or through a mapping / array element)."""
    a = evm.Asm()
    consts = [0, 1, 7, 8, 15, 30, 31, 32, 33, 64, 127, 128, 255, 256, 257, 300, 511, 512, 1 << 16, (1 << 64) - 1,
              1 << 64, 1 << 255, evm.M256]
    feats = set()
    for slot in range(rng.randint(1, 5)):
        style = rng.choice(["signext-const-top", "signext-const-below", "signext-both-const", "copy-len", "byte",
                            "mask-any", "signext-of-sload", "signext-then-mask"])
        feats.add(style)
        c = rng.choice(consts)
        if c > 256:
            feats.add("const>256")
        src = rng.choice([[4, "CALLDATALOAD"], ["CALLER"], [slot + 7, "SLOAD"], ["CALLVALUE"]])
        if style == "signext-const-top":
            a.emit(src, ("push", c, None), "SIGNEXTEND")
        elif style == "signext-const-below":
            a.emit(("push", c, None), src, "SIGNEXTEND")
        elif style == "signext-both-const":
            a.emit(("push", c, None), ("push", rng.choice(consts), None), "SIGNEXTEND")
        elif style == "signext-of-sload":
            a.emit(("push", c, None), slot, "SLOAD", "SIGNEXTEND")
        elif style == "signext-then-mask":
            a.emit(("push", c, None), src, "SIGNEXTEND", ("push", (1 << rng.choice([8, 64, 160, 256])) - 1, None), "AND")
        elif style == "copy-len":
            opn = rng.choice(["CALLDATACOPY", "CALLDATACOPY", "CODECOPY", "RETURNDATACOPY", "EXTCODECOPY"])
            size = rng.choice([c if c < (1 << 16) else 64, 33, 64, 300, 393, 394, 395, 400, 511, 512, 1000, 4096, 24576, 24577])
            dest = rng.choice([0, 32, 5])
            a.emit(("push", size, None), rng.choice([0, 4, 36]), dest)
            if opn == "EXTCODECOPY":
                a.emit("CALLER")
            # read back what was copied: usually the very word at the destination
            a.emit(opn, dest if rng.random() < 0.6 else rng.choice([0, 32, 5, 64]), "MLOAD")
        elif style == "byte":
            a.emit(src, ("push", c, None), "BYTE")
        else:
            a.emit(src, ("push", rng.choice(consts), None), "AND")
        how = rng.random()
        if how < 0.6:
            a.emit(slot, "SSTORE")
        elif how < 0.8:
            # value of a mapping element
            a.emit(36, "CALLDATALOAD", 0, "MSTORE", slot, 32, "MSTORE", 64, 0, "SHA3", "SSTORE")
        else:
            a.emit(slot, 0, "MSTORE", 32, 0, "SHA3", 36, "CALLDATALOAD", "ADD", "SSTORE")
    a.emit("STOP")
    return a.assemble(), feats


def mask_shift(rng):
    """Mask-and-shift code over a few slots with shift amounts and mask positions anywhere in 0..2^256."""
    a = evm.Asm()
    shifts = [0, 1, 7, 8, 16, 96, 160, 240, 248, 250, 255, 256, 257, 300, 511, 1 << 16, (1 << 64) - 1, 1 << 64,
              (1 << 64) + 8, 1 << 255, evm.M256]
    widths = [1, 8, 16, 24, 64, 128, 160, 248, 255, 256]
    feats = set()
    nb = rng.randint(1, 5)
    a.emit(0, "CALLDATALOAD", 0xe0, "SHR")
    for b in range(nb):
        a.emit("DUP1", ("push", 0xc0000000 + b, 4), "EQ")
        a.jumpi("B%d" % b)
    a.emit("STOP")
    for b in range(nb):
        a.label("B%d" % b)
        for _ in range(rng.randint(1, 3)):
            s = rng.randrange(0, 4)
            sp = s if s else ("push", 0, 1)
            k = rng.choice(shifts)
            w = rng.choice(widths)
            m = (1 << w) - 1
            style = rng.choice(["shr-and", "div-and", "and-shifted-mask", "write-mul", "write-shl", "shl-and", "sar-and",
                                "nested-or", "and-and", "nested-subword", "nested-subword", "shr-and-positioned",
                                "copy-chain", "copy-chain", "self-rewrite", "self-rewrite"])
            feats.add(style)
            if k >= 256:
                feats.add("shift>=256")
            if style == "shr-and":
                a.emit(sp, "SLOAD", k, "SHR", ("push", m, None), "AND", 0, "MSTORE")
            elif style == "nested-subword":
                # ((sload >> k1) & m1) >> k2) & m2 [>> k3 & m3]: sub-words of sub-words
                a.emit(sp, "SLOAD")
                for _ in range(rng.randint(2, 3)):
                    kk = rng.choice([0, 8, 16, 64, 100, 128, 160, 200, 248])
                    ww = rng.choice([8, 16, 32, 64, 128, 160])
                    pos = rng.choice([0, 0, 8, 64, 152])
                    if kk:
                        a.emit(kk, "SHR")
                    a.emit(("push", (((1 << ww) - 1) << pos) & evm.M256, None), "AND")
                a.emit(rng.choice([[0, "MSTORE"], [(s + 1) % 4, "SSTORE"]]))
            elif style == "self-rewrite":
                # the slot is rewritten from nothing but masked reads of itself (every packed span is an "unused"
                # read), and the same slot is also used as a typed word somewhere
                def rewrite():
                    nparts = rng.randint(1, 3)
                    pos = 0
                    for pi in range(nparts):
                        w = rng.choice([8, 16, 64, 160])
                        if rng.random() < 0.3:
                            pos = rng.choice([0, 8, 16, 96, 160])
                        a.emit(sp, "SLOAD", ("push", (((1 << w) - 1) << pos) & evm.M256, None), "AND")
                        pos += w
                        if pi:
                            a.emit("OR")
                    a.emit(sp, "SSTORE")
                use_first = rng.random() < 0.5
                if not use_first:
                    rewrite()
                use = rng.choice(["BALANCE", "EXTCODESIZE", "EXTCODEHASH", "iszero", "signext", "call", "selector", "none"])
                if use in ("BALANCE", "EXTCODESIZE", "EXTCODEHASH"):
                    a.emit(sp, "SLOAD", use, (s + 1) % 4, "SSTORE")
                elif use == "iszero":
                    a.emit(sp, "SLOAD", "ISZERO", "ISZERO", (s + 1) % 4, "SSTORE")
                elif use == "signext":
                    a.emit(sp, "SLOAD", rng.choice([0, 3, 15]), "SIGNEXTEND", (s + 1) % 4, "SSTORE")
                elif use == "call":
                    a.emit(0, 0, 0, 0, sp, "SLOAD", "GAS", "STATICCALL", "POP")
                elif use == "selector":
                    a.emit(sp, "SLOAD", 0xe0, "SHR", ("push", 0xa9059cbb, 4), "EQ", "POP")
                if use_first:
                    rewrite()
            elif style == "copy-chain":
                # a high part of slot A is copied to slot B, a high part of B to C, ... within one thread: the
                # sub-word offsets accumulate along the chain (to 256 and beyond)
                chain = rng.sample(range(0, 6), rng.randint(2, 4))
                for src, dst in zip(chain, chain[1:]):
                    kk = rng.choice([64, 100, 128, 160, 200, 248])
                    ww = rng.choice([8, 32, 64, 128])
                    a.emit(src if src else ("push", 0, 1), "SLOAD")
                    if rng.random() < 0.7:
                        a.emit(kk, "SHR")
                    else:
                        a.emit(("push", 1 << kk, None), "SWAP1", "DIV")
                    a.emit(("push", (1 << ww) - 1, None), "AND", dst if dst else ("push", 0, 1), "SSTORE")
                last = chain[-1]
                # ... and a field of the last copy is read: narrow or wide, optionally used as a typed quantity
                fw = rng.choice([8, 8, 64, 128, 160])
                a.emit(last if last else ("push", 0, 1), "SLOAD", rng.choice([8, 72, 200]), "SHR",
                       ("push", (1 << fw) - 1, None), "AND")
                use = rng.choice(["none", "none", "sdiv", "sar", "signext", "slt", "smod", "iszero", "balance"])
                if use == "sdiv":
                    a.emit(rng.choice([2, 3, 7]), "SWAP1", "SDIV")
                elif use == "smod":
                    a.emit(rng.choice([2, 3, 7]), "SWAP1", "SMOD")
                elif use == "sar":
                    a.emit(rng.choice([1, 4]), "SAR")
                elif use == "signext":
                    a.emit(max(0, fw // 8 - 1), "SIGNEXTEND")
                elif use == "slt":
                    a.emit(4, "CALLDATALOAD", "SLT")
                elif use == "iszero":
                    a.emit("ISZERO", "ISZERO")
                elif use == "balance":
                    a.emit("BALANCE")
                feats.add("copy-chain-use:" + use)
                a.emit(0, "MSTORE")
            elif style == "shr-and-positioned":
                kk = rng.choice([8, 64, 100, 112, 128, 200])
                pos = rng.choice([8, 64, 128, 152, 200, 240])
                a.emit(sp, "SLOAD", kk, "SHR", ("push", (m << pos) & evm.M256, None), "AND", rng.choice([[0, "MSTORE"], [(s + 1) % 4, "SSTORE"]]))
            elif style == "sar-and":
                a.emit(sp, "SLOAD", k, "SAR", ("push", m, None), "AND", 0, "MSTORE")
            elif style == "shl-and":
                a.emit(sp, "SLOAD", k, "SHL", ("push", m, None), "AND", 0, "MSTORE")
            elif style == "div-and":
                kk = k if k < 256 else rng.choice([8, 16, 200])
                a.emit(("push", 1 << kk, None), sp, "SLOAD", "DIV", ("push", m, None), "AND", 0, "MSTORE")
            elif style == "and-shifted-mask":
                kk = k % 256
                a.emit(sp, "SLOAD", ("push", (m << kk) & evm.M256, None), "AND", 0, "MSTORE")
            elif style == "and-and":
                a.emit(sp, "SLOAD", ("push", m, None), "AND", ("push", (1 << rng.choice(widths)) - 1, None), "AND", k, "SHR",
                       0, "MSTORE")
            elif style == "write-mul":
                kk = k if k < 256 else rng.choice([8, 16, 200, 255])
                a.emit(sp, "SLOAD", ("push", evm.M256 ^ ((m << kk) & evm.M256), 32), "AND")
                a.emit(4, "CALLDATALOAD", ("push", m, None), "AND", ("push", 1 << kk, None), "MUL", "OR", sp, "SSTORE")
            elif style == "write-shl":
                a.emit(sp, "SLOAD", ("push", evm.M256 ^ ((m << (k % 256)) & evm.M256), 32), "AND")
                a.emit(4, "CALLDATALOAD", ("push", m, None), "AND", k, "SHL", "OR", sp, "SSTORE")
            else:
                k1, k2 = rng.choice([0, 8, 16, 64]), rng.choice([128, 160, 200, 250, 255])
                a.emit(4, "CALLDATALOAD", ("push", 0xff, None), "AND", ("push", 1 << k1, None), "MUL")
                a.emit(36, "CALLDATALOAD", ("push", m, None), "AND", ("push", 1 << k2, None), "MUL", "OR")
                a.emit(sp, "SLOAD", ("push", (1 << k1) - 1, None), "AND", "OR", sp, "SSTORE")
        a.emit("STOP")
    return a.assemble(), feats


def growers(rng):
    """Loops and straight-line code that repeatedly square, add, hash or mask a running value."""
    a = evm.Asm()
    feats = set()
    style = rng.choice(["loop", "loop", "straight", "storage-loop", "memory-loop", "copy"])
    feats.add("style:" + style)

    def step():
        op = rng.choice(["square", "add-self", "hash", "mask", "sload-key", "addmod", "exp", "not", "byte"])
        feats.add("op:" + op)
        if op == "square":
            a.emit("DUP1", "MUL")
        elif op == "add-self":
            a.emit("DUP1", "ADD")
        elif op == "hash":
            a.emit(0, "MSTORE", 0x20, 0, "SHA3")
        elif op == "mask":
            a.emit(("push", (1 << rng.choice([8, 160, 255])) - 1, None), "AND")
        elif op == "sload-key":
            a.emit("SLOAD")
        elif op == "addmod":
            a.emit("DUP1", "DUP1", "ADDMOD")
        elif op == "exp":
            a.emit("DUP1", "EXP")
        elif op == "not":
            a.emit("NOT")
        else:
            a.emit(rng.randrange(0, 32), "BYTE")

    a.emit(rng.choice(["CALLVALUE", "CALLER", 4, 1]))
    if style in ("loop", "storage-loop", "memory-loop"):
        a.label("L")
        for _ in range(rng.randint(1, 4)):
            step()
        if style == "storage-loop":
            a.emit("DUP1", rng.randrange(0, 3), "SSTORE")
            if rng.random() < 0.5:
                a.emit(rng.randrange(0, 3), "SLOAD", "ADD")
        if style == "memory-loop":
            a.emit("DUP1", 32 * rng.randrange(0, 3), "MSTORE", 32 * rng.randrange(0, 3), "MLOAD", "OR")
        a.emit(rng.choice(["CALLVALUE", "DUP1", ("push", 1, 1)]))
        a.jumpi("L")
        a.emit(rng.choice([["DUP1", 0, "SSTORE"], ["POP"], [0, "MSTORE", 0x20, 0, "RETURN"], [0, 0, "LOG1"]]))
        a.emit("STOP")
    elif style == "copy":
        a.emit(rng.choice([32, 64, 320, 3000]), rng.choice([0, 4]), 0, rng.choice(["CALLDATACOPY", "CODECOPY"]))
        a.emit(rng.choice([64, 320]), 0, "SHA3")
        for _ in range(rng.randint(1, 6)):
            step()
        a.emit(0, "SSTORE", "STOP")
    else:
        for _ in range(rng.randint(3, 30)):
            step()
        a.emit(rng.choice([["DUP1", 1, "SSTORE"], [0, "MSTORE"], [0, "SLOAD", "ADD", 2, "SSTORE"]]))
        a.emit("STOP")
    return a.assemble(), feats


def near_limit_operands(rng, limit):
    """Operands whose size sits right at the value-size limit (limit-2 .. limit+1 nodes) are fed to the instructions
    that wrap an operand into a larger value: storage keys and values (literal and computed, stored then loaded back
    on the same path), hashes, balances, memory round trips."""
    a = evm.Asm()
    feats = {"near-limit"}

    def sized(n):
        n = max(1, n)
        a.emit(rng.choice(["CALLVALUE", "CALLER", "CALLDATASIZE"]))
        if n > 1:
            a.emit(bytes([0x19]) * (n - 1))        # n-1 NOTs: a chain of exactly n nodes
    for _ in range(rng.randint(1, 4)):
        n = limit + rng.choice([-2, -1, -1, 0, 0, 1])
        shape = rng.choice(["store-literal-load", "store-computed-load", "load-unwritten", "value-side", "hash", "balance",
                            "mem-roundtrip", "store-literal-load"])
        feats.add("near-limit:" + shape)
        if shape == "store-literal-load":
            sized(n)                                # key
            a.emit("DUP1", rng.choice([0x2a, ("push", 0, 1), ("push", 7, 32)]), "SWAP1", "SSTORE", "SLOAD",
                   rng.choice([["POP"], [0, "MSTORE"], [1, "SSTORE"]]))
        elif shape == "store-computed-load":
            sized(n)
            a.emit("DUP1", 1, 2, "ADD", "SWAP1", "SSTORE", "SLOAD", "POP")
        elif shape == "load-unwritten":
            sized(n)
            a.emit("SLOAD", rng.choice([["POP"], [0, "MSTORE"]]))
        elif shape == "value-side":
            sized(n)
            a.emit(rng.randrange(4), "SSTORE", rng.randrange(4), "SLOAD", "POP")
        elif shape == "hash":
            sized(n)
            a.emit(0, "MSTORE", 0x20, 0, "SHA3", rng.choice([["POP"], ["SLOAD", "POP"]]))
        elif shape == "balance":
            sized(n)
            a.emit(rng.choice(["BALANCE", "EXTCODESIZE", "EXTCODEHASH", "BLOCKHASH", "ISZERO"]), "POP")
        else:
            sized(n)
            a.emit(0x40, "MSTORE", 0x40, "MLOAD", rng.choice([["POP"], [2, "SSTORE"]]))
    a.emit("STOP")
    return a.assemble(), feats


DEEP_CHAIN_OPS = ["ADD", "MUL", "SUB", "DIV", "SDIV", "MOD", "SMOD", "EXP", "SIGNEXTEND", "LT", "GT", "SLT", "SGT", "EQ",
                  "AND", "OR", "XOR", "BYTE", "SHL", "SHR", "SAR", "ISZERO", "NOT", "SHA3", "BALANCE", "SLOAD",
                  "MLOAD", "CALLDATALOAD", "EXTCODEHASH", "BLOCKHASH", "ADDMOD", "MULMOD"]
DEEP_CHAIN_SHAPES = ["const-top", "const-below", "self"]


def deep_chain(rng, op=None, shape=None, n=None):
    """One operator applied to its own result thousands of times in a straight line (x = op(c, x) or op(x, c) or
    op(x, x)), then stored: whatever keeps value trees shallow is exercised at depth. Returns (code, feats)."""
    a = evm.Asm()
    op = op or rng.choice(DEEP_CHAIN_OPS)
    n = n or rng.choice([300, 2000, 12000, 30000, 30000, 50000])
    shape = shape or rng.choice(DEEP_CHAIN_SHAPES)
    a.emit(rng.choice(["CALLVALUE", [0, "CALLDATALOAD"], "CALLER"]))
    c = rng.choice([0, 1, 2, 31, 255])
    if op in ("ISZERO", "NOT", "BALANCE", "SLOAD", "MLOAD", "CALLDATALOAD", "EXTCODEHASH", "BLOCKHASH"):
        step = evm.asm(op)
    elif op == "SHA3":
        step = evm.asm(0, "MSTORE", 0x20, 0, "SHA3")
    elif op in ("ADDMOD", "MULMOD"):
        step = evm.asm("DUP1", c, op)
    elif shape == "const-top":
        step = evm.asm(c if c else ("push", 0, 1), op)
    elif shape == "const-below":
        step = evm.asm(c if c else ("push", 0, 1), "SWAP1", op)
    else:
        step = evm.asm("DUP1", op)
    a.emit(step * n)
    a.emit(rng.choice([[0, "SSTORE"], [0, "MSTORE"], ["POP"], [0, "MSTORE", 0x20, 0, "RETURN"]]), "STOP")
    return a.assemble(), {"deep-chain", "chain:" + op, "chain-shape:" + shape}


def every_producer(rng):
    """A running value X is grown for a few steps and kept at the bottom of the stack; then a handful of opcodes
    (drawn from *every* opcode that takes operands) are executed with X or a small constant in each operand position.
    Opcodes that write memory are followed by MLOADs of what they wrote; results are stored, hashed or dropped."""
    a = evm.Asm()
    feats = set()
    a.emit(rng.choice(["CALLVALUE", "CALLER", [4, "CALLDATALOAD"]]))
    for _ in range(rng.randint(0, 7)):
        a.emit(rng.choice([["DUP1", "MUL"], ["DUP1", "ADD"], [0, "MSTORE", 0x20, 0, "SHA3"], ["NOT"], ["DUP1", "EXP"],
                           ["SLOAD"], ["DUP1", "DUP1", "ADDMOD"], ["BALANCE"], ["DUP1", "XOR", "CALLER", "ADD"]]))
    skip = {"POP", "JUMP", "JUMPI", "RETURN", "REVERT", "SELFDESTRUCT", "STOP", "INVALID", "JUMPDEST"}
    cands = sorted(n for (n, pops, pushes) in evm.OPS.values()
                   if pops >= 1 and n not in skip and not n.startswith(("DUP", "SWAP", "PUSH")))
    depth = 1  # X
    for _ in range(rng.randint(1, 6)):
        name = rng.choice(cands)
        _, pops, pushes = evm.OPS[evm.NAME2BYTE[name]]
        feats.add("op:" + name)
        big_pos = rng.randrange(pops + 1)  # == pops: no operand is X
        # operands are pushed deepest first; position 0 is the top of the stack when the opcode runs
        for pos in reversed(range(pops)):
            if pos == big_pos and depth <= 16:
                a.emit("DUP%d" % depth)
            else:
                a.emit(rng.choice([0, 1, 4, 32, 33, 64, 96, 31]))
            depth += 1
        a.emit(name)
        depth += pushes - pops
        writes_mem = name in ("CALLDATACOPY", "CODECOPY", "RETURNDATACOPY", "EXTCODECOPY", "MSTORE", "MSTORE8", "CALL",
                              "CALLCODE", "DELEGATECALL", "STATICCALL")
        if pushes:
            how = rng.random()
            if how < 0.4:
                a.emit("POP")
                depth -= 1
            elif how < 0.7:
                a.emit(rng.randrange(4), "SSTORE")
                depth -= 1
            elif depth > 12:
                a.emit("POP")
                depth -= 1
        if writes_mem or rng.random() < 0.2:
            for off in rng.sample([0, 1, 4, 31, 32, 33, 64, 96], rng.randint(1, 3)):
                a.emit(off, "MLOAD", rng.choice([["POP"], [rng.randrange(4), "SSTORE"]]))
            feats.add("mload-after-write")
    a.emit(rng.choice([["STOP"], [0x40, 0, "RETURN"], [0x40, 0, "SHA3", 0, "SSTORE", "STOP"], [0x20, 0, "LOG0", "STOP"]]))
    return a.assemble(), feats


def sinks(rng, B):
    """Stack-aware programs that put boundary constants into *sink positions*: shift amounts, exponents, memory
    offsets and sizes of SHA3/RETURN/REVERT/LOG/CALL*/CREATE*/xCOPY/MLOAD/MSTORE, jump targets, storage keys and slot
    arithmetic, masks and mask positions. Every statement lives in its own dispatch branch."""
    a = evm.Asm()
    feats = set()
    nb = rng.randint(1, 7)
    b = lambda: rng.choice(B) if rng.random() < 0.8 else rng.getrandbits(rng.choice([8, 32, 64, 65, 128, 256]))
    sym = lambda: a.emit(rng.choice(["CALLVALUE", "CALLER", [4, "CALLDATALOAD"], [rng.randrange(4), "SLOAD"]]))
    a.emit(0, "CALLDATALOAD", 0xe0, "SHR")
    for i in range(nb):
        a.emit("DUP1", ("push", 0xd0000000 + i, 4), "EQ")
        a.jumpi("B%d" % i)
    a.emit("STOP")
    for i in range(nb):
        a.label("B%d" % i)
        for _ in range(rng.randint(1, 3)):
            k = rng.choice(["shift", "shift-mask", "const-shift", "const-alu", "exp", "sha3", "ret", "log", "call", "create", "copy", "mem", "jump",
                            "slot-arith", "mask", "mulshift", "signext-byte", "divmod", "nested-hash", "sstore-const",
                            "mstore8", "balance", "map-proj", "map-proj", "const-preimage-key", "const-preimage-key"])
            feats.add(k)
            if k == "shift":
                sym()
                a.emit(b(), rng.choice(["SHL", "SHR", "SAR"]), rng.choice([[0, "MSTORE"], [rng.randrange(4), "SSTORE"], ["POP"]]))
            elif k == "const-shift":
                # both operands constant: folded when used as a memory offset, jump target or mask
                a.emit(b(), b(), rng.choice(["SHL", "SHR", "SAR"]))
                a.emit(rng.choice([["MLOAD", "POP"], ["JUMP"], [rng.randrange(4), "SLOAD", "AND", 0, "MSTORE"], ["CALLVALUE", "SWAP1", "MSTORE"]]))
            elif k == "const-alu":
                a.emit(b(), b(), rng.choice(["EXP", "SDIV", "SMOD", "MULMOD" if False else "MUL", "SIGNEXTEND", "BYTE", "DIV", "MOD"]))
                a.emit(rng.choice([["MLOAD", "POP"], ["JUMP"], [rng.randrange(4), "SLOAD", "AND", 0, "MSTORE"], ["CALLVALUE", "SWAP1", "MSTORE"]]))
            elif k == "shift-mask":
                a.emit(rng.randrange(4), "SLOAD", b(), rng.choice(["SHR", "SHL", "SAR"]), b(), "AND", rng.randrange(4), "SSTORE")
            elif k == "exp":
                a.emit(b(), rng.choice([2, 10, 256, b()]), "EXP")
                if rng.random() < 0.5:
                    sym()
                    a.emit("MUL")
                a.emit(rng.choice([[0, "MSTORE"], [rng.randrange(4), "SSTORE"], ["JUMP"]]))
            elif k == "sha3":
                sym()
                a.emit(0, "MSTORE", rng.choice([0, 1, 31, 32, 33, 64, b()]), rng.choice([0, 0, 32, b()]), "SHA3")
                # the hash of an arbitrary (possibly empty) region in the position of an array / mapping base
                q = rng.random()
                if q < 0.35:
                    a.emit(rng.choice([0, 1, 5, b()]), "ADD")
                elif q < 0.5:
                    sym()
                    a.emit("ADD")
                elif q < 0.6:
                    a.emit(0x20, "MSTORE", "CALLER", 0, "MSTORE", 0x40, 0, "SHA3")
                a.emit(rng.choice(["POP", "SLOAD", "SLOAD", [1, "SSTORE"], [1, "SWAP1", "SSTORE"]]))
                if a.items and rng.random() < 0.3:
                    a.emit("POP") if False else None
            elif k == "ret":
                sym()
                a.emit(rng.choice([0, 32, b()]), "MSTORE", b(), b(), rng.choice(["RETURN", "REVERT"]))
            elif k == "log":
                n = rng.randrange(5)
                for _ in range(n):
                    a.emit(b())
                a.emit(b(), b(), "LOG%d" % n)
            elif k == "call":
                op = rng.choice(["CALL", "CALLCODE", "DELEGATECALL", "STATICCALL"])
                for _ in range(7 if op in ("CALL", "CALLCODE") else 6):
                    a.emit(b() if rng.random() < 0.7 else rng.choice([0, 32, 64]))
                a.emit(op, "POP")
                if rng.random() < 0.5:
                    a.emit(rng.choice([0, 32, b()]), "MLOAD", rng.randrange(4), "SSTORE")
            elif k == "create":
                if rng.random() < 0.5:
                    a.emit(b(), b(), b(), "CREATE", "POP")
                else:
                    a.emit(b(), b(), b(), b(), "CREATE2", "POP")
            elif k == "copy":
                op = rng.choice(["CALLDATACOPY", "CODECOPY", "RETURNDATACOPY", "EXTCODECOPY"])
                a.emit(b(), b(), b())
                if op == "EXTCODECOPY":
                    a.emit("CALLER")
                a.emit(op)
                if rng.random() < 0.6:
                    a.emit(rng.choice([0, 32, b()]), "MLOAD", rng.choice([[1, "SSTORE"], ["POP"], ["JUMP"]]))
            elif k == "mem":
                if rng.random() < 0.5:
                    sym()
                    a.emit(b(), "MSTORE", b(), "MLOAD", "POP")
                else:
                    a.emit(b(), "MLOAD", b(), "MSTORE")
            elif k == "mstore8":
                sym()
                a.emit(b(), "MSTORE8", b(), b(), "SHA3", "POP")
            elif k == "jump":
                if rng.random() < 0.5:
                    a.emit(b(), "JUMP")
                else:
                    sym()
                    a.emit(b(), "JUMPI")
            elif k == "slot-arith":
                if rng.random() < 0.5:
                    sym()
                    a.emit(0, "MSTORE", rng.choice([0, 1, 5, b()]), 0x20, "MSTORE", 0x40, 0, "SHA3")
                else:
                    a.emit(rng.choice([0, 1, 5, b()]), 0, "MSTORE", 0x20, 0, "SHA3")
                a.emit(rng.choice([b(), (1 << 56) - 1, 1 << 56, (1 << 64) - 1, 1 << 64, (1 << 56) + 3, 1, 2]), "ADD")
                if rng.random() < 0.5:
                    a.emit("SLOAD", rng.choice(["POP", [b(), "AND", 0, "MSTORE"]]))
                else:
                    sym()
                    a.emit("SWAP1", "SSTORE")
            elif k == "const-preimage-key":
                # a storage key that is the hash of 2-6 constant words (named / proxy slots, ABI-encoded strings: pointer
                # 0x20, a length word, data words) - every word position takes hostile constants
                n = rng.randint(2, 6)
                words = [rng.choice([0x20, 0x20, b(), 0x40, 0])] + [b() if rng.random() < 0.6 else rng.choice(
                    [1, 5, 31, 32, 33, 64, 65, 96, 1 << 16, (1 << 64) - 1, (1 << 64) - 31, evm.M256,
                     int.from_bytes(b"eip1967.proxy.implementation".ljust(32, b"\0"), "big")]) for _ in range(n - 1)]
                base = rng.choice([0, 0x80, 0x100])
                for j, w in enumerate(words):
                    a.emit(("push", w, None) if w else ("push", 0, 1), base + 0x20 * j, "MSTORE")
                a.emit(rng.choice([0x20 * n, 0x20 * n, 0x20 * (n - 1), 0x20 * n + 1]), base, "SHA3")
                if rng.random() < 0.3:
                    a.emit(rng.choice([1, b()]), rng.choice(["ADD", "SUB"]))
                if rng.random() < 0.5:
                    a.emit("SLOAD", rng.choice(["POP", [0, "MSTORE"]]))
                else:
                    sym()
                    a.emit("SWAP1", "SSTORE")
            elif k == "map-proj":
                # several accesses to members of one mapping's (struct) value: keccak(key . slot) + c, with the
                # member offsets c at the limits of what a projection can express
                slot = rng.choice([0, 1, 5])
                offs = [0, 1, 2, 255, 256, (1 << 56) - 2, (1 << 56) - 1, 1 << 56, (1 << 56) + 1, (1 << 64) - 1, 1 << 64,
                        (1 << 248) - 1, 1 << 255, evm.M256]
                for _ in range(rng.randint(2, 3)):
                    a.emit("CALLER", 0, "MSTORE", slot, 0x20, "MSTORE", 0x40, 0, "SHA3",
                           ("push", rng.choice(offs), None), "ADD")
                    if rng.random() < 0.5:
                        a.emit("SLOAD", rng.choice(["POP", [b(), "AND", 0, "MSTORE"]]))
                    else:
                        sym()
                        a.emit("SWAP1", "SSTORE")
            elif k == "mask":
                a.emit(rng.randrange(4), "SLOAD", b(), "AND")
                if rng.random() < 0.6:
                    a.emit(b(), rng.choice(["SHR", "SWAP1", "DIV"]) if rng.random() < 0.7 else "MUL")
                a.emit(rng.randrange(4), "SSTORE")
            elif k == "mulshift":
                s = rng.randrange(4)
                a.emit(s, "SLOAD", b(), "AND")
                sym()
                a.emit(b(), "AND", b() if rng.random() < 0.5 else (1 << rng.randrange(256)), "MUL", "OR", s, "SSTORE")
            elif k == "signext-byte":
                sym()
                a.emit(b(), rng.choice(["SIGNEXTEND", "BYTE"]), rng.randrange(4), "SSTORE")
            elif k == "divmod":
                sym()
                a.emit(b(), rng.choice(["DIV", "SDIV", "MOD", "SMOD", "SWAP1"]), b(),
                       rng.choice(["DIV", "MOD", "ADDMOD" if False else "MUL"]), rng.randrange(4), "SSTORE")
            elif k == "nested-hash":
                sym()
                a.emit(0, "MSTORE", b(), 0x20, "MSTORE", 0x40, 0, "SHA3", 0x20, "MSTORE", "CALLER", 0, "MSTORE", 0x40, 0,
                       "SHA3", b(), "ADD", "SLOAD", b(), "AND", 0, "MSTORE")
            elif k == "sstore-const":
                a.emit(b(), b(), "SSTORE", b(), "SLOAD", b(), "SSTORE")
            elif k == "balance":
                a.emit(b(), rng.choice(["BALANCE", "EXTCODESIZE", "EXTCODEHASH", "BLOCKHASH"]), b(), "ADD", rng.randrange(4), "SSTORE")
        if rng.random() < 0.8:
            a.emit("STOP")
    return a.assemble(), feats


def mutate_contract(rng, code, B):
    """Byte flips, truncation near a PUSH, or substitution of a PUSH immediate by a boundary constant."""
    b = bytearray(code)
    kinds = evm.disasm_ref(code)
    pushes = [i for i, k in enumerate(kinds) if k == "P"]
    how = rng.choice(["flip", "flip", "truncate", "imm", "imm", "imm"])
    if how == "flip" or not pushes:
        for _ in range(rng.randint(1, 5)):
            b[rng.randrange(len(b))] = rng.getrandbits(8)
    elif how == "truncate":
        p = rng.choice(pushes)
        b = b[:max(1, p + rng.randint(0, 33))]
    else:
        for _ in range(rng.randint(1, 4)):
            p = rng.choice(pushes)
            w = b[p] - 0x5f
            v = rng.choice(B) & ((1 << (8 * w)) - 1)
            b[p + 1:p + 1 + w] = v.to_bytes(w, "big")
    return bytes(b), how


def poll_loops(rng):
    """Programs that spend iterations in each of the polled loops: long straight-line code, the four bulk-copy
    opcodes and CALL return data with constant sizes, many values / type variables / classes / constant slots."""
    a = evm.Asm()
    feats = set()
    parts = rng.sample(["straight", "calldatacopy", "codecopy", "extcodecopy", "returndatacopy", "call-ret", "slots",
                        "values"], rng.randint(2, 5))
    for p in parts:
        feats.add(p)
        size = rng.choice([32, 64, 96, 200, 394, 1000, 3000])
        if p == "straight":
            for _ in range(rng.randint(5, 60)):
                a.emit(rng.randrange(1, 200), "POP")
        elif p == "calldatacopy":
            a.emit(size, rng.choice([0, 4]), rng.choice([0, 64]), "CALLDATACOPY")
        elif p == "codecopy":
            a.emit(size, 0, 0, "CODECOPY")
        elif p == "extcodecopy":
            a.emit(size, 0, 0, "CALLER", "EXTCODECOPY")
        elif p == "returndatacopy":
            a.emit(size, 0, 0, "RETURNDATACOPY")
        elif p == "call-ret":
            a.emit(size, 0, 0, 0, 0, "CALLER", "GAS", rng.choice(["CALL", "CALLCODE"]), "POP")
            if rng.random() < 0.5:
                a.emit(size, 0, 0, 0, "CALLER", "GAS", rng.choice(["STATICCALL", "DELEGATECALL"]), "POP")
        elif p == "slots":
            for s in rng.sample(range(0, 40), rng.randint(2, 12)):
                if rng.random() < 0.5:
                    a.emit("CALLVALUE", s if s else ("push", 0, 1), "SSTORE")
                else:
                    a.emit(s if s else ("push", 0, 1), "SLOAD", ("push", (1 << 160) - 1, 20), "AND", 0, "MSTORE")
        elif p == "values":
            for i in range(rng.randint(2, 10)):
                a.emit(4 + 32 * i, "CALLDATALOAD", "CALLER", rng.choice(["ADD", "AND", "EQ", "LT"]), 32 * (i % 4), "MSTORE")
    if rng.random() < 0.5:
        a.emit("CALLVALUE")
        a.jumpi("X")
        a.emit(0, 0, "RETURN")
        a.label("X")
        a.emit(1, 1, "SSTORE")
    a.emit("STOP")
    return a.assemble(), feats


def multi_evidence(rng):
    """Every slot gets 2-4 pieces of typing evidence of different kinds, each in its own dispatch branch."""
    a = evm.Asm()
    nslots = rng.randint(1, 4)
    slots = rng.sample([0, 1, 2, 3, 5, 8, 13], nslots)
    branches = []
    kinds = ["dynarray", "mapping", "bool-write", "address-write", "masked-write", "packed-write", "signed-use",
             "numeric-use", "copy-from", "plain-read", "bytes32-compare", "unsigned-use", "address-use", "selector-use",
             "struct-init", "struct-init", "cmp-result", "cmp-result", "map-and-array", "map-and-array"]
    wordish = ["bool-write", "address-write", "masked-write", "signed-use", "numeric-use", "unsigned-use", "address-use",
               "plain-read", "bytes32-compare", "selector-use"]
    stringish = ["bit0-read", "len7-read", "data248-read", "bit0-read"]
    for s in slots:
        if rng.random() < 0.2:
            # the string-slot pattern: an array base whose own word is read through the flag / length / data masks,
            # next to a little word-like evidence (dynamic `bytes` only ever exists as an intermediate fold result)
            ks = ["dynarray"] + rng.sample(stringish, rng.randint(1, 2)) + rng.sample(wordish, rng.randint(0, 2))
            for k in dict.fromkeys(ks):
                branches.append((s, k))
            continue
        pool = wordish if rng.random() < 0.4 else kinds + stringish[:3]
        for k in rng.sample(pool, rng.randint(2, 4)):
            branches.append((s, k))
    rng.shuffle(branches)
    # a third of the programs are one straight line (every piece of evidence on the same thread, in sequence)
    straight = rng.random() < 0.3
    if not straight:
        a.emit(0, "CALLDATALOAD", 0xe0, "SHR")
        for i in range(len(branches)):
            a.emit("DUP1", ("push", 0xe0000000 + i, 4), "EQ")
            a.jumpi("B%d" % i)
        a.emit("STOP")
    feats = {"straight-line"} if straight else set()
    for i, (s, k) in enumerate(branches):
        if not straight:
            a.label("B%d" % i)
        sp = s if s else ("push", 0, 1)
        feats.add(k)
        if k == "dynarray":
            a.emit(sp, 0, "MSTORE", 0x20, 0, "SHA3", 4, "CALLDATALOAD", "ADD")
            if rng.random() < 0.5:
                a.emit("SLOAD", 0, "MSTORE")
            else:
                a.emit("CALLVALUE", "SWAP1", "SSTORE")
        elif k == "mapping":
            a.emit("CALLER", 0, "MSTORE", sp, 0x20, "MSTORE", 0x40, 0, "SHA3")
            if rng.random() < 0.5:
                a.emit("SLOAD", 0, "MSTORE")
            else:
                a.emit("CALLVALUE", "SWAP1", "SSTORE")
        elif k == "bool-write":
            a.emit("CALLVALUE", "ISZERO", sp, "SSTORE")
        elif k == "address-write":
            if rng.random() < 0.5:
                a.emit("CALLER", sp, "SSTORE")
            else:
                a.emit(4, "CALLDATALOAD", ("push", (1 << 160) - 1, 20), "AND", sp, "SSTORE")
        elif k == "masked-write":
            w = rng.choice([8, 16, 32, 64, 128])
            a.emit(4, "CALLDATALOAD", ("push", (1 << w) - 1, None), "AND", sp, "SSTORE")
        elif k == "packed-write":
            off = rng.choice([8, 16, 160])
            w = rng.choice([8, 16, 64])
            m = (1 << w) - 1
            a.emit(sp, "SLOAD", ("push", evm.M256 ^ (m << off), 32), "AND", 4, "CALLDATALOAD", ("push", m, None), "AND",
                   ("push", 1 << off, None), "MUL", "OR", sp, "SSTORE")
        elif k == "signed-use":
            a.emit(4, "CALLDATALOAD", sp, "SLOAD", rng.choice(["SDIV", "SLT", "SGT", "SMOD"]), 0, "MSTORE")
        elif k == "numeric-use":
            a.emit(4, "CALLDATALOAD", sp, "SLOAD", rng.choice(["ADD", "MUL", "LT", "DIV"]), 0, "MSTORE")
        elif k == "copy-from":
            other = rng.choice(slots)
            a.emit(other if other else ("push", 0, 1), "SLOAD", sp, "SSTORE")
        elif k == "unsigned-use":
            a.emit(rng.choice([5, 4]), sp, "SLOAD", rng.choice(["DIV", "MOD", "GT", "LT"]), 0x40 + s, "SSTORE")
        elif k == "address-use":
            if rng.random() < 0.5:
                a.emit(sp, "SLOAD", rng.choice(["BALANCE", "EXTCODESIZE", "EXTCODEHASH"]), 0x50 + s, "SSTORE")
            else:
                a.emit(0, 0, 0, 0, 0, sp, "SLOAD", "GAS", "CALL", "POP")
        elif k == "selector-use":
            a.emit(sp, "SLOAD", 0xe0, "SHR", ("push", 0xa9059cbb, 4), "EQ", 0, "MSTORE")
        elif k == "plain-read":
            a.emit(sp, "SLOAD", 0, "MSTORE")
        elif k == "bit0-read":
            a.emit(sp, "SLOAD", 1, "AND", *rng.choice([[0, "MSTORE"], [0x48 + s, "SSTORE"], ["ISZERO", 0, "MSTORE"]]))
        elif k == "len7-read":
            a.emit(sp, "SLOAD", 0xfe, "AND", 1, "SHR", *rng.choice([[0, "MSTORE"], [0x48 + s, "SSTORE"]]))
        elif k == "data248-read":
            a.emit(sp, "SLOAD", ("push", evm.M256 ^ 0xff, 32), "AND", *rng.choice([[0, "MSTORE"], [0x48 + s, "SSTORE"]]))
        elif k == "bytes32-compare":
            a.emit(sp, "SLOAD", ("push", rng.getrandbits(256), 32), "EQ", 0, "MSTORE")
        elif k == "map-and-array":
            # the same slot as the base of a mapping and of a dynamic array (contradictory container evidence)
            first = rng.random() < 0.5
            for which in ((0, 1) if first else (1, 0)):
                if which == 0:
                    a.emit(rng.choice(["CALLER", [4, "CALLDATALOAD"]]), 0, "MSTORE", sp, 0x20, "MSTORE", 0x40, 0, "SHA3")
                else:
                    a.emit(sp, 0, "MSTORE", 0x20, 0, "SHA3", 36, "CALLDATALOAD", "ADD")
                if rng.random() < 0.5:
                    a.emit("SLOAD", 0, "MSTORE")
                else:
                    a.emit("CALLVALUE", "SWAP1", "SSTORE")
        elif k == "cmp-result":
            # the raw result of a comparison / boolean operator is stored, and its negation (or a comparison of it)
            # is stored or used too: one value, seen by the boolean-operator rule from both sides
            a.emit(4, "CALLDATALOAD", rng.choice([[36, "CALLDATALOAD"], ["CALLVALUE"], [sp, "SLOAD"]]),
                   rng.choice(["LT", "GT", "EQ", "SLT", "SGT"]))
            if rng.random() < 0.3:
                a.emit("ISZERO")
            a.emit("DUP1", sp, "SSTORE")
            nxt = rng.choice(["iszero-store", "iszero-iszero-store", "eq-store", "jumpi-less", "and-one"])
            other = 0x70 + s
            if nxt == "iszero-store":
                a.emit("ISZERO", other, "SSTORE")
            elif nxt == "iszero-iszero-store":
                a.emit("ISZERO", "ISZERO", other, "SSTORE")
            elif nxt == "eq-store":
                a.emit(1, "EQ", other, "SSTORE")
            elif nxt == "and-one":
                a.emit(1, "AND", other, "SSTORE")
            else:
                a.emit("ISZERO", 0, "MSTORE")
        elif k == "struct-init":
            # one SSTORE packing 2-3 fields; a non-first field's value is a stack duplicate that is also stored, whole,
            # in another slot (one value, two storage writes)
            other = rng.choice([x for x in [0, 1, 2, 3, 5, 8, 13, 21] if x != s])
            if rng.random() < 0.6:
                # ... and the whole slot is also used, unmasked, as a typed word on the same thread
                a.emit(sp, "SLOAD", rng.choice(["EXTCODEHASH", "BALANCE", "EXTCODESIZE", "ISZERO"]), 0x60 + s, "SSTORE")
            w2 = rng.choice([8, 16, 64])
            a.emit(4, "CALLDATALOAD", ("push", (1 << w2) - 1, None), "AND", "DUP1", other if other else ("push", 0, 1), "SSTORE")
            first_w = rng.choice([160, 128, 8])
            a.emit(36, "CALLDATALOAD", ("push", (1 << first_w) - 1, None), "AND")      # first field
            a.emit("SWAP1", ("push", 1 << first_w, None), "MUL", "OR")                  # | shared << first_w
            if rng.random() < 0.4 and first_w + w2 <= 192:
                a.emit("CALLVALUE", ("push", 0xff, 1), "AND", ("push", 1 << (first_w + w2), None), "MUL", "OR")
            a.emit(sp, "SSTORE")
        if not straight:
            a.emit("STOP")
    a.emit("STOP")
    return a.assemble(), feats


def struct_inits(rng):
    """Straight-line struct initialisations on otherwise untouched slots: the whole slot is first used as a typed word,
    then written by one SSTORE that packs 2-3 fields, one of which is a stack duplicate also stored whole elsewhere."""
    a = evm.Asm()
    feats = {"struct-inits"}
    slots = rng.sample(range(0, 12), rng.randint(1, 3))
    for n, s in enumerate(slots):
        sp = s if s else ("push", 0, 1)
        other = 0x20 + n
        use = rng.choice(["EXTCODEHASH", "BALANCE", "EXTCODESIZE", "ISZERO", None])
        if use:
            a.emit(sp, "SLOAD", use, 0x40 + n, "SSTORE")
            feats.add("typed-use:" + use)
        w2 = rng.choice([8, 16, 64])
        first_w = rng.choice([160, 128, 8])
        a.emit(4 + 32 * n, "CALLDATALOAD", ("push", (1 << w2) - 1, None), "AND", "DUP1", other, "SSTORE")
        a.emit(36 + 32 * n, "CALLDATALOAD", ("push", (1 << first_w) - 1, None), "AND")
        a.emit("SWAP1", ("push", 1 << first_w, None), "MUL", "OR")
        if rng.random() < 0.4 and first_w + w2 <= 192:
            a.emit("CALLVALUE", ("push", 0xff, 1), "AND", ("push", 1 << (first_w + w2), None), "MUL", "OR")
        a.emit(sp, "SSTORE")
        if rng.random() < 0.3:
            a.emit(sp, "SLOAD", ("push", (1 << first_w) - 1, None), "AND", 0, "MSTORE")
    a.emit("STOP")
    return a.assemble(), feats


# ------------------------------------------------------------------------------------------- composable fragments

def evidence_branches(rng, slots, foreign=None):
    """Branch bodies (closures emitting into an Asm) giving each slot several pieces of evidence. Each closure draws
    from its own private RNG so that emitting it twice gives identical code."""
    import random
    kinds = ["dynarray", "mapping", "bool-write", "address-write", "masked-write", "packed-write", "numeric-use",
             "plain-read", "copy-within", "copy-within", "copy-from-mapping", "copy-from-mapping", "grown-write"]
    if foreign:
        # the *numbers* of slots this fragment does not own, used as plain constants in places that are not the key of
        # a constant-slot, mapping or array access
        kinds += ["foreign-const", "foreign-const", "foreign-const"]
    out = []
    for s in slots:
        for k in sorted(set(rng.sample(kinds, rng.randint(1, 3)))):
            seed = rng.getrandbits(32)

            def body(a, s=s, k=k, seed=seed):
                r = random.Random(seed)
                sp = s if s else ("push", 0, 1)
                if k == "dynarray":
                    a.emit(sp, 0, "MSTORE", 0x20, 0, "SHA3", 4, "CALLDATALOAD", "ADD")
                    a.emit("SLOAD", 0, "MSTORE") if r.random() < 0.5 else a.emit("CALLVALUE", "SWAP1", "SSTORE")
                elif k == "mapping":
                    a.emit("CALLER", 0, "MSTORE", sp, 0x20, "MSTORE", 0x40, 0, "SHA3")
                    a.emit("SLOAD", 0, "MSTORE") if r.random() < 0.5 else a.emit("CALLVALUE", "SWAP1", "SSTORE")
                elif k == "bool-write":
                    a.emit("CALLVALUE", "ISZERO", sp, "SSTORE")
                elif k == "address-write":
                    a.emit("CALLER", sp, "SSTORE")
                elif k == "masked-write":
                    w = r.choice([8, 16, 32, 64, 128])
                    a.emit(4, "CALLDATALOAD", ("push", (1 << w) - 1, None), "AND", sp, "SSTORE")
                elif k == "packed-write":
                    off, w = r.choice([8, 16, 160]), r.choice([8, 16, 64])
                    m = (1 << w) - 1
                    a.emit(sp, "SLOAD", ("push", evm.M256 ^ (m << off), 32), "AND", 4, "CALLDATALOAD", ("push", m, None),
                           "AND", ("push", 1 << off, None), "MUL", "OR", sp, "SSTORE")
                elif k == "numeric-use":
                    a.emit(4, "CALLDATALOAD", sp, "SLOAD", r.choice(["ADD", "MUL", "LT"]), 0, "MSTORE")
                elif k == "plain-read":
                    a.emit(sp, "SLOAD", 0, "MSTORE")
                elif k == "copy-within":
                    o = r.choice(slots)
                    a.emit(o if o else ("push", 0, 1), "SLOAD", sp, "SSTORE")
                elif k == "copy-from-mapping":
                    # slot = mapping_o[grown key]: with a large key (or a small value-size limit) the loaded value is
                    # one the VM replaces by an opaque value
                    o = r.choice(slots)
                    a.emit(4, "CALLDATALOAD")
                    for _ in range(r.choice([0, 1, 3, 5, 6, 7])):
                        a.emit("DUP1", r.choice(["ADD", "MUL"]))
                    a.emit(0, "MSTORE", o if o else ("push", 0, 1), 0x20, "MSTORE", 0x40, 0, "SHA3", "SLOAD", sp, "SSTORE")
                elif k == "foreign-const":
                    f = r.choice(foreign)
                    fp = f if f else ("push", 0, 1)
                    v = r.choice(["hash3-last", "hash3-mid", "hash3-first", "hash4-last", "key-first", "value", "mem-offset",
                                  "folded-hash-plus", "folded-hash-plus"])
                    if v.startswith("hash"):
                        words = [[4, "CALLDATALOAD"], ["CALLER"], [36, "CALLDATALOAD"]][:3 if v.startswith("hash3") else 3]
                        pos = {"hash3-last": 2, "hash3-mid": 1, "hash3-first": 0, "hash4-last": 3}[v]
                        n = 4 if v == "hash4-last" else 3
                        wi = 0
                        for j in range(n):
                            if j == pos:
                                a.emit(fp)
                            else:
                                a.emit(words[wi % 3])
                                wi += 1
                            a.emit(0x80 + 0x20 * j, "MSTORE")
                        a.emit(0x20 * n, 0x80, "SHA3")
                        a.emit("SLOAD", 0, "MSTORE") if r.random() < 0.4 else a.emit(r.choice(["CALLER", "CALLVALUE"]), "SWAP1", "SSTORE")
                    elif v == "folded-hash-plus":
                        # a literal 256-bit key that happens to equal keccak(i) + f (or keccak(f) + i) for small i:
                        # as a literal it is a slot of its own, not an element of anybody's array
                        from . import keccak as _k
                        i = r.choice([0, 1, 2, 9, 77])
                        lit = (_k.keccak_words(i) + f) & evm.M256 if r.random() < 0.6 else (_k.keccak_words(f) + i + 1) & evm.M256
                        a.emit(r.choice(["CALLER", "CALLVALUE", [4, "CALLDATALOAD"]]), ("push", lit, 32), "SSTORE")
                    elif v == "key-first":
                        a.emit(fp, 0, "MSTORE", sp, 0x20, "MSTORE", 0x40, 0, "SHA3", "SLOAD", 0, "MSTORE")
                    elif v == "value":
                        a.emit(fp, r.choice([[], [4, "CALLDATALOAD", "ADD"]]), sp, "SSTORE")
                    else:
                        a.emit(sp, "SLOAD", 0x100 + f % 0x400, "MSTORE")
                elif k == "grown-write":
                    a.emit(r.choice(["CALLVALUE", [4, "CALLDATALOAD"]]))
                    for _ in range(r.choice([1, 3, 6, 8])):
                        a.emit("DUP1", r.choice(["ADD", "MUL"]))
                    a.emit(sp, "SSTORE")
                a.emit("STOP")
            out.append(body)
    return out


def dispatcher(branches, shape="chain", salt=0):
    """A program that dispatches on the calldata selector to each branch body."""
    a = evm.Asm()
    n = len(branches)
    a.emit(0, "CALLDATALOAD", 0xe0, "SHR")
    if shape == "chain" or n < 3:
        for i in range(n):
            a.emit("DUP1", ("push", (0xf0000000 + salt * 0x100 + i) & 0xffffffff, 4), "EQ")
            a.jumpi("B%d" % i)
        a.emit("STOP")
    elif shape == "split":
        mid = n // 2
        a.emit("DUP1", ("push", (0xf0000000 + salt * 0x100 + mid) & 0xffffffff, 4), "GT")
        a.jumpi("LOW")
        for i in range(mid, n):
            a.emit("DUP1", ("push", (0xf0000000 + salt * 0x100 + i) & 0xffffffff, 4), "EQ")
            a.jumpi("B%d" % i)
        a.emit("STOP")
        a.label("LOW")
        for i in range(0, mid):
            a.emit("DUP1", ("push", (0xf0000000 + salt * 0x100 + i) & 0xffffffff, 4), "EQ")
            a.jumpi("B%d" % i)
        a.emit("STOP")
    else:  # fallthrough: the last branch is the default
        for i in range(n - 1):
            a.emit("DUP1", ("push", (0xf0000000 + salt * 0x100 + i) & 0xffffffff, 4), "EQ")
            a.jumpi("B%d" % i)
        a.jump("B%d" % (n - 1))
    for i, body in enumerate(branches):
        a.label("B%d" % i)
        body(a)
    return a.assemble()
