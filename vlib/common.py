"""Shared infrastructure: building the driver, talking to it, sharded execution, evidence, known findings, replay."""
import hashlib
import json
import multiprocessing
import os
import random
import resource
import select
import signal
import subprocess
import sys
import tempfile
import time
import traceback

VERIF = os.path.dirname(os.path.dirname(os.path.abspath(__file__)))
REPO = os.environ.get("VERIF_REPO", "/repo")
# The three overrides below exist only for trying seeded changes in isolation (tools/try_mutant.sh): a copy of the
# harness pointing at a scratch worktree, its own target directory, and a scratch directory for evidence / replay files.
TARGET = os.environ.get("VERIF_TARGET", os.path.join(VERIF, "target"))
HARNESS = os.environ.get("VERIF_HARNESS", os.path.join(VERIF, "harness"))
OUT = os.environ.get("VERIF_OUT", VERIF)
SHIM = os.path.join(TARGET, "libslxshim.so")
GUARD = "smlxl_storage_layout_extractor_verif"
NCPU = min(16, os.cpu_count() or 4)


def driver_path(profile):
    sub = "release" if profile == "rel" else "debug"
    return os.path.join(TARGET, profile, sub, "slx-driver")


class HarnessError(Exception):
    pass


def build(profiles=("rel",), quiet=True):
    """(Re)builds the driver against /repo's current working tree. A no-op when nothing changed."""
    os.makedirs(TARGET, exist_ok=True)
    env = dict(os.environ)
    env["CARGO_NET_OFFLINE"] = "true"
    flags = env.get("RUSTFLAGS", "")
    if GUARD not in flags:
        flags = (flags + " --cfg " + GUARD).strip()
    env["RUSTFLAGS"] = flags
    # Cargo.lock is copied from the repository so that the same dependency versions are used.
    lock_src = os.path.join(REPO, "Cargo.lock")
    lock_dst = os.path.join(HARNESS, "Cargo.lock")
    if os.path.exists(lock_src) and not os.path.exists(lock_dst):
        import shutil
        shutil.copy(lock_src, lock_dst)
    for profile in profiles:
        cmd = ["cargo", "build", "--offline", "--target-dir", os.path.join(TARGET, profile)]
        if profile == "rel":
            cmd.append("--release")
        r = subprocess.run(cmd, cwd=HARNESS, env=env, stdout=subprocess.PIPE, stderr=subprocess.STDOUT, text=True)
        if r.returncode != 0:
            sys.stderr.write(r.stdout[-6000:])
            raise HarnessError("driver build failed (%s)" % profile)
    if (not os.path.exists(SHIM)) or os.path.getmtime(SHIM) < os.path.getmtime(os.path.join(HARNESS, "shim.c")):
        r = subprocess.run(["gcc", "-O2", "-shared", "-fPIC", "-o", SHIM, os.path.join(HARNESS, "shim.c")],
                           stdout=subprocess.PIPE, stderr=subprocess.STDOUT, text=True)
        if r.returncode != 0:
            sys.stderr.write(r.stdout)
            raise HarnessError("shim build failed")


class Driver:
    """One driver subprocess; synchronous request/response. A dead or silent worker is restarted and the request in
    flight is answered with class crash / oom / timeout."""

    def __init__(self, profile="rel", mem_gb=6, shim=True, wrapper=None):
        self.profile = profile
        self.mem_gb = mem_gb
        self.shim = shim
        self.wrapper = wrapper
        self.proc = None
        self.errfile = None
        self.next_id = 0
        self.restarts = 0

    def start(self):
        env = dict(os.environ)
        if self.shim:
            env["LD_PRELOAD"] = SHIM
        self.errfile = tempfile.TemporaryFile()
        mem = self.mem_gb

        def limits():
            if mem:
                resource.setrlimit(resource.RLIMIT_AS, (mem << 30, mem << 30))
            resource.setrlimit(resource.RLIMIT_CORE, (0, 0))
        cmd = [driver_path(self.profile)]
        if self.wrapper:
            cmd = self.wrapper + cmd
        self.proc = subprocess.Popen(cmd, stdin=subprocess.PIPE, stdout=subprocess.PIPE, stderr=self.errfile,
                                     env=env, preexec_fn=limits if not self.wrapper else None, bufsize=0)
        self.buf = b""

    def stop(self):
        if self.proc:
            try:
                self.proc.stdin.close()
            except Exception:
                pass
            try:
                self.proc.kill()
            except Exception:
                pass
            try:
                self.proc.wait(timeout=5)
            except Exception:
                pass
            self.proc = None
        if self.errfile:
            self.errfile.close()
            self.errfile = None

    def _stderr_tail(self):
        try:
            self.errfile.seek(0, 2)
            n = self.errfile.tell()
            self.errfile.seek(max(0, n - 2000))
            return self.errfile.read().decode("utf8", "replace")
        except Exception:
            return ""

    def _readline(self, timeout):
        deadline = time.time() + timeout
        fd = self.proc.stdout.fileno()
        while b"\n" not in self.buf:
            left = deadline - time.time()
            if left <= 0:
                return None
            r, _, _ = select.select([fd], [], [], min(left, 1.0))
            if r:
                chunk = os.read(fd, 1 << 20)
                if not chunk:
                    return b""
                self.buf += chunk
        line, self.buf = self.buf.split(b"\n", 1)
        return line

    def call(self, req, timeout=60.0):
        if self.proc is None:
            self.start()
        self.next_id += 1
        req = dict(req)
        req["id"] = self.next_id
        data = (json.dumps(req) + "\n").encode()
        try:
            self.proc.stdin.write(data)
            self.proc.stdin.flush()
            line = self._readline(timeout)
        except (BrokenPipeError, OSError):
            line = b""
        if line is None:
            # wall-clock safety net: inconclusive, never a verdict
            self.stop()
            self.restarts += 1
            return {"class": "timeout"}
        if line == b"":
            rc = None
            try:
                rc = self.proc.wait(timeout=5)
            except Exception:
                pass
            tail = self._stderr_tail()
            self.stop()
            self.restarts += 1
            if "memory allocation of" in tail or "capacity overflow" in tail and "failed" in tail:
                return {"class": "oom", "stderr": tail[-400:]}
            return {"class": "crash", "returncode": rc, "signal": (-rc if rc is not None and rc < 0 else None),
                    "stderr": tail[-600:]}
        try:
            resp = json.loads(line)
        except Exception as e:
            self.stop()
            return {"class": "harness_error", "msg": "bad response json: %s" % e}
        if resp.get("id") != self.next_id:
            self.stop()
            return {"class": "harness_error", "msg": "response id mismatch"}
        if resp.get("class") == "stall":
            # the driver answered and exited (its worker thread cannot be cancelled)
            self.stop()
            self.restarts += 1
        return resp


def seed_for(prop, base=None):
    if base is None:
        base = int(os.environ.get("VERIF_SEED", "0") or 0)
    h = hashlib.sha256(("%s:%d" % (prop, base)).encode()).digest()
    return int.from_bytes(h[:8], "big")


def canon(obj):
    return json.dumps(obj, sort_keys=True, separators=(",", ":"))


def sha(obj):
    return hashlib.sha256(canon(obj).encode()).hexdigest()[:16]


# ------------------------------------------------------------------------------------------ sharded execution

def _shard_entry(args):
    fn, shard, nshards, seed, tier, extra = args
    signal.signal(signal.SIGINT, signal.SIG_IGN)
    try:
        return fn(shard, nshards, seed, tier, extra)
    except Exception:
        return {"harness_error": traceback.format_exc()}


def run_sharded(fn, seed, tier, extra=None, nshards=None):
    """Runs fn(shard, nshards, seed, tier, extra) -> dict in nshards processes and returns the list of results."""
    nshards = nshards or NCPU
    ctx = multiprocessing.get_context("fork")
    with ctx.Pool(nshards) as pool:
        results = pool.map(_shard_entry, [(fn, i, nshards, seed, tier, extra) for i in range(nshards)])
    for r in results:
        if isinstance(r, dict) and "harness_error" in r:
            raise HarnessError(r["harness_error"])
    return results


# ------------------------------------------------------------------------------------------ results

class Result:
    """Accumulates what one shard (or the whole run) observed."""

    def __init__(self):
        self.evaluations = 0
        self.judged = 0
        self.nontrivial = set()
        self.samples = []
        self.violations = []          # list of dict(signature, what, case)
        self.inconclusive = {}
        self.counters = {}
        self.notes = []

    def count(self, key, n=1):
        self.counters[key] = self.counters.get(key, 0) + n

    def inconc(self, why):
        self.inconclusive[why] = self.inconclusive.get(why, 0) + 1

    def nontriv(self, case):
        if len(self.nontrivial) < 2_000_000:
            self.nontrivial.add(sha(case) if not isinstance(case, str) else case)

    def sample(self, case, cap=6):
        if len(self.samples) < cap:
            self.samples.append(case)

    def violation(self, signature, what, case, count=1):
        # keep the smallest witness per signature
        size = len(canon(case))
        for v in self.violations:
            if v["signature"] == signature:
                v["count"] += count
                if size < v["size"]:
                    v.update(what=what, case=case, size=size)
                return
        self.violations.append({"signature": signature, "what": what, "case": case, "size": size, "count": count})

    def to_dict(self):
        return {"evaluations": self.evaluations, "judged": self.judged, "nontrivial": list(self.nontrivial),
                "samples": self.samples, "violations": self.violations, "inconclusive": self.inconclusive,
                "counters": self.counters, "notes": self.notes}

    @staticmethod
    def merge(dicts):
        out = Result()
        for d in dicts:
            out.evaluations += d["evaluations"]
            out.judged += d["judged"]
            out.nontrivial.update(d["nontrivial"])
            for s in d["samples"]:
                out.sample(s, cap=8)
            for v in d["violations"]:
                found = False
                for w in out.violations:
                    if w["signature"] == v["signature"]:
                        w["count"] += v["count"]
                        if v["size"] < w["size"]:
                            w.update(what=v["what"], case=v["case"], size=v["size"])
                        found = True
                if not found:
                    out.violations.append(dict(v))
            for k, n in d["inconclusive"].items():
                out.inconclusive[k] = out.inconclusive.get(k, 0) + n
            for k, n in d["counters"].items():
                if isinstance(n, (int, float)):
                    if k.startswith("max_"):
                        out.counters[k] = max(out.counters.get(k, 0), n)
                    else:
                        out.counters[k] = out.counters.get(k, 0) + n
            out.notes.extend(d.get("notes", []))
        return out


def load_known():
    path = os.path.join(VERIF, "known_findings.json")
    if not os.path.exists(path):
        return []
    with open(path) as f:
        return json.load(f)["findings"]


def finish(prop, tier, seed, result, level, rule, t0, assumptions, min_judged=1, extra_cov=None, explanation=None,
           exhaustive=False, distinct_measured=None):
    """Triage violations against known findings, write replay + evidence files, print verdict lines; returns the exit
    code."""
    known = [k for k in load_known() if k["property"] == prop]
    known_hit = {}
    new = []
    for v in result.violations:
        k = next((k for k in known if k["signature"] == v["signature"] and k.get("status") == "known"), None)
        if k is not None:
            known_hit.setdefault(k["signature"], [k, 0])
            known_hit[k["signature"]][1] += v["count"]
        else:
            new.append(v)
    os.makedirs(os.path.join(OUT, "replay", prop), exist_ok=True)
    os.makedirs(os.path.join(OUT, "evidence"), exist_ok=True)
    lines = []
    for sig, (k, n) in sorted(known_hit.items()):
        lines.append("KNOWN-FINDING: property=%s %s [signature=%s, hits=%d]" % (prop, k["what"], sig, n))
    for v in new:
        path = os.path.join(OUT, "replay", prop, sha([v["signature"], v["case"]]) + ".json")
        with open(path, "w") as f:
            json.dump({"property": prop, "signature": v["signature"], "what": v["what"], "case": v["case"],
                       "seed": seed, "tier": tier}, f, indent=1)
        lines.append("VIOLATION property=%s replay=%s" % (prop, path))
        lines.append("  signature=%s count=%d what=%s" % (v["signature"], v["count"], str(v["what"])[:300]))
    code = 1 if new else 0
    harness_fail = None
    if result.judged < min_judged:
        harness_fail = "only %d cases judged (floor %d): nothing observed" % (result.judged, min_judged)
    distinct = len(result.nontrivial) if distinct_measured is None else int(distinct_measured)
    if distinct < 2:
        harness_fail = harness_fail or "fewer than 2 distinct non-trivial cases observed"
    coverage = {
        "evaluations": result.evaluations,
        "judged": result.judged,
        "distinct_nontrivial": distinct,
        "rule": rule,
        "samples": result.samples[:8],
        "observed": result.counters,
        "inconclusive": result.inconclusive,
        "known_finding_hits": {sig: n for sig, (k, n) in known_hit.items()},
        "new_violation_signatures": [v["signature"] for v in new],
    }
    if exhaustive:
        coverage["exhaustive"] = True
    if explanation:
        coverage["explanation"] = explanation
    if extra_cov:
        coverage.update(extra_cov)
    ev = {
        "property_id": prop, "tier": tier, "seed": seed, "level": level, "coverage": coverage,
        "assumptions": assumptions, "wall_s": round(time.time() - t0, 2), "violations": len(new),
    }
    with open(os.path.join(OUT, "evidence", prop + ".json"), "w") as f:
        json.dump(ev, f, indent=1, sort_keys=True)
    for l in lines:
        print(l)
    verdict = "VIOLATED" if new else "held on everything explored"
    print("%s %s: %s; evaluations=%d judged=%d distinct_nontrivial=%d inconclusive=%s known_hits=%d wall=%.1fs" % (
        prop, tier, verdict, result.evaluations, result.judged, distinct, result.inconclusive,
        sum(n for _, n in known_hit.values()), time.time() - t0))
    if harness_fail and code == 0:
        print("HARNESS-ERROR %s: %s" % (prop, harness_fail))
        return 2
    return code


def corpus_codes(max_len=None):
    """The real deployed bytecodes extracted from the repository's tests: list of (name, bytes)."""
    import glob
    out = []
    for p in sorted(glob.glob(os.path.join(VERIF, "corpus", "*.hex"))):
        code = bytes.fromhex(open(p).read().strip())
        if max_len is None or len(code) <= max_len:
            out.append((os.path.basename(p)[:-4], code))
    return out


class Rng(random.Random):
    pass


def rng_for(seed, *parts):
    h = hashlib.sha256(("%d:" % seed + ":".join(str(p) for p in parts)).encode()).digest()
    return Rng(int.from_bytes(h[:8], "big"))
