"""A concrete reference EVM over Python ints with *path enumeration*: at JUMPI both outcomes are followed regardless
of the condition value (that is what "the same path" means for a machine that forks unconditionally). Values are ints,
or None for "not a constant" (environment data). Independent of the library."""
from . import evm
from . import treeeval as te

MAX_STACK = 1024


class Path:
    __slots__ = ("executed", "stack", "memory", "writes", "storage", "error", "end", "taken_jumps", "decisions",
                 "sloads", "steps", "gas", "flags", "attempts")

    def __init__(self):
        self.executed = []          # instruction offsets in execution order
        self.stack = []
        self.memory = {}            # word-aligned offset -> value
        self.writes = []            # ordered (key, value)
        self.storage = {}
        self.error = None           # (offset, kind) or None
        self.end = None             # why the path ended
        self.taken_jumps = []       # (jump offset, target) for JUMPs taken on this path
        self.decisions = ""         # 'J' / 'F' per JUMPI
        self.sloads = []            # (key) of SLOADs executed
        self.steps = 0
        self.gas = 0
        self.flags = set()
        self.attempts = []          # (offset, opcode name, target value or None) for every JUMP / JUMPI executed

    def clone(self):
        p = Path()
        p.executed = list(self.executed)
        p.stack = list(self.stack)
        p.memory = dict(self.memory)
        p.writes = list(self.writes)
        p.storage = dict(self.storage)
        p.taken_jumps = list(self.taken_jumps)
        p.decisions = self.decisions
        p.sloads = list(self.sloads)
        p.steps = self.steps
        p.gas = self.gas
        p.flags = set(self.flags)
        p.attempts = list(self.attempts)
        return p


class Opaque(int):
    """A value the reference EVM knows concretely but the library, by design, does not resolve to a constant: the
    result of an operator outside its 21 foldable ones (SIGNEXTEND, BYTE, ADDMOD, MULMOD), of SLOAD / MLOAD, or of
    anything computed from such a value. It behaves as the int it is; only JUMP / JUMPI look at the distinction - the
    reference makes no prediction about a jump whose target the library sees as symbolic."""
    __slots__ = ()


NOT_FOLDED = {"SIGNEXTEND", "BYTE", "ADDMOD", "MULMOD"}


def _alu(name, a, quirks=(), flags=None):
    r = _alu_value(name, a, quirks, flags)
    if r is not None and (name in NOT_FOLDED or any(isinstance(x, Opaque) for x in a)):
        return Opaque(r)
    return r


def _alu_value(name, a, quirks=(), flags=None):
    """a: operands in pop order. Returns int or None. `quirks` selects the library's known deviations (used only to
    attribute a mismatch to a recorded finding, never to judge)."""
    if any(x is None for x in a):
        return None
    if name == "SIGNEXTEND":
        true = te.op_signextend(a[0], a[1])
        swapped = te.op_signextend(a[1], a[0])
        if true != swapped and flags is not None:
            flags.add("signextend-swapped")
        return swapped if "signextend-swapped" in quirks else true
    if name == "BYTE":
        true = te.op_byte(a[0], a[1])
        sh = (0xf8 - 8 * a[0]) % te.M
        desugared = ((a[1] >> sh) if sh < 256 else 0) & 0xff
        if true != desugared and flags is not None:
            flags.add("byte-index-wrap")
        return desugared if "byte-index-wrap" in quirks else true
    if name in ("ADD", "MUL", "SUB", "DIV", "SDIV", "MOD", "SMOD", "EXP", "LT", "GT", "SLT", "SGT", "EQ", "AND", "OR",
                "XOR"):
        return te.BIN[name.lower()](a[0], a[1])
    if name == "ADDMOD":
        return 0 if a[2] == 0 else (a[0] + a[1]) % a[2]
    if name == "MULMOD":
        return 0 if a[2] == 0 else (a[0] * a[1]) % a[2]
    if name == "SIGNEXTEND":
        return te.op_signextend(a[0], a[1])
    if name == "ISZERO":
        return int(a[0] == 0)
    if name == "NOT":
        return a[0] ^ te.MASK
    if name == "BYTE":
        return te.op_byte(a[0], a[1])
    if name == "SHL":
        return te.op_shl(a[0], a[1])
    if name == "SHR":
        return te.op_shr(a[0], a[1])
    if name == "SAR":
        return te.op_sar(a[0], a[1])
    raise KeyError(name)


ALU = {"ADD", "MUL", "SUB", "DIV", "SDIV", "MOD", "SMOD", "ADDMOD", "MULMOD", "EXP", "SIGNEXTEND", "LT", "GT", "SLT",
       "SGT", "EQ", "ISZERO", "AND", "OR", "XOR", "NOT", "BYTE", "SHL", "SHR", "SAR"}
ENV_PUSH = {"ADDRESS", "ORIGIN", "CALLER", "CALLVALUE", "CALLDATASIZE", "GASPRICE", "RETURNDATASIZE", "COINBASE",
            "TIMESTAMP", "NUMBER", "PREVRANDAO", "GASLIMIT", "CHAINID", "SELFBALANCE", "BASEFEE", "MSIZE", "GAS"}
ENV_UNARY = {"BALANCE", "CALLDATALOAD", "EXTCODESIZE", "EXTCODEHASH", "BLOCKHASH"}


def enumerate_paths(code, max_paths=4096, max_steps=100000, quirks=()):
    """Returns (paths, complete). Loop-free programs terminate by themselves; anything else is cut at max_steps and
    reported as incomplete."""
    kinds, starts, jumpdests = evm.instruction_starts(code)
    n = len(code)
    done = []
    work = [(0, Path())]
    complete = True
    while work:
        pc, p = work.pop()
        while True:
            if len(done) + len(work) > max_paths or p.steps > max_steps:
                complete = False
                p.end = "cut"
                done.append(p)
                break
            if pc >= n:
                p.end = "end-of-code"
                done.append(p)
                break
            b = code[pc]
            k = kinds[pc]
            p.executed.append(pc)
            p.steps += 1
            if k in ("I", "T") or b not in evm.OPS:
                p.end = "invalid"
                done.append(p)
                break
            name, pops, pushes = evm.OPS[b]
            # stack checks
            if name.startswith("DUP"):
                need = pops
            elif name.startswith("SWAP"):
                need = pops
            else:
                need = pops
            if len(p.stack) < need:
                p.error = (pc, "NoSuchStackFrame")
                p.end = "error"
                done.append(p)
                break
            if len(p.stack) - (pops if not name.startswith(("DUP", "SWAP")) else 0) + (
                    1 if name.startswith("DUP") else (0 if name.startswith("SWAP") else pushes)) > MAX_STACK:
                p.error = (pc, "StackDepthExceeded")
                p.end = "error"
                done.append(p)
                break
            st = p.stack
            nxt = pc + 1
            if k == "P":
                width = b - 0x5f
                st.append(int.from_bytes(code[pc + 1:pc + 1 + width], "big"))
                p.executed.extend(range(pc + 1, pc + 1 + width))
                nxt = pc + 1 + width
            elif name == "PUSH0":
                st.append(0)
            elif name.startswith("DUP"):
                st.append(st[-pops])
            elif name.startswith("SWAP"):
                st[-1], st[-pops] = st[-pops], st[-1]
            elif name == "POP":
                st.pop()
            elif name in ALU:
                args = [st.pop() for _ in range(pops)]
                st.append(_alu(name, args, quirks, p.flags))
            elif name == "PC":
                st.append(pc)
            elif name == "CODESIZE":
                st.append(n)
            elif name in ENV_PUSH:
                st.append(None)
            elif name in ENV_UNARY:
                st.pop()
                st.append(None)
            elif name == "MLOAD":
                off = st.pop()
                v = p.memory.get(off, 0) if off is not None else None
                st.append(Opaque(v) if v is not None else None)
            elif name == "MSTORE":
                off = st.pop()
                val = st.pop()
                if off is not None:
                    p.memory[off] = val
            elif name == "MSTORE8":
                st.pop()
                st.pop()
            elif name == "SLOAD":
                key = st.pop()
                p.sloads.append(key)
                v = p.storage.get(key, 0) if key is not None else None
                st.append(Opaque(v) if v is not None else None)
            elif name == "SSTORE":
                key = st.pop()
                val = st.pop()
                p.writes.append((key, val))
                if key is not None:
                    p.storage[key] = val
            elif name == "JUMPDEST":
                pass
            elif name == "JUMP":
                target = st.pop()
                p.attempts.append((pc, "JUMP", target))
                if target is None:
                    p.end = "symbolic-jump"
                    done.append(p)
                    break
                if isinstance(target, Opaque):
                    # concrete here, symbolic for the library: no prediction from this point on
                    p.flags.add("opaque-jump-target")
                    p.end = "opaque-jump"
                    done.append(p)
                    break
                if target >= n:
                    p.error = (pc, "NonExistentJumpTarget")
                    p.end = "error"
                    done.append(p)
                    break
                if target not in jumpdests:
                    p.error = (pc, "InvalidJumpTarget")
                    p.end = "error"
                    done.append(p)
                    break
                p.taken_jumps.append((pc, target))
                p.executed.append(target)
                nxt = target + 1
            elif name == "JUMPI":
                target = st.pop()
                st.pop()
                p.attempts.append((pc, "JUMPI", target))
                if isinstance(target, Opaque):
                    p.flags.add("opaque-jump-target")
                    p.decisions += "F"
                    pc = nxt
                    continue
                if target is None:
                    err = (pc, "NoConcreteJumpDestination")
                elif target >= n:
                    err = (pc, "NonExistentJumpTarget")
                elif target not in jumpdests:
                    err = (pc, "InvalidJumpTarget")
                else:
                    err = None
                if err is None:
                    q = p.clone()
                    q.decisions += "J"
                    work.append((target, q))
                else:
                    # the jump outcome is an error path of its own; it has no state past this instruction
                    q = p.clone()
                    q.decisions += "J"
                    q.error = err
                    q.end = "error-branch"
                    done.append(q)
                p.decisions += "F"
            elif name in ("STOP", "RETURN", "REVERT", "SELFDESTRUCT", "INVALID"):
                for _ in range(pops):
                    st.pop()
                p.end = "halt:" + name
                done.append(p)
                break
            elif name.startswith("LOG") or name in ("CALLDATACOPY", "CODECOPY", "EXTCODECOPY", "RETURNDATACOPY"):
                for _ in range(pops):
                    st.pop()
            elif name in ("CREATE", "CREATE2", "CALL", "CALLCODE", "DELEGATECALL", "STATICCALL", "SHA3"):
                for _ in range(pops):
                    st.pop()
                st.append(None)
            else:
                raise KeyError(name)
            pc = nxt
    return done, complete


def reachable(code, **kw):
    """Union of executed byte offsets over all paths (instruction offsets plus push immediates)."""
    paths, complete = enumerate_paths(code, **kw)
    r = set()
    for p in paths:
        r.update(p.executed)
    return r, paths, complete


def static_reachable(code):
    """Over-approximation of the offsets reachable in the EVM control-flow graph, for programs with loops: a JUMP /
    JUMPI whose target is pushed by the immediately preceding PUSH goes to that target (if it is a JUMPDEST);
    any other JUMP / JUMPI may go to every JUMPDEST. Returns the set of byte offsets (instructions + push data)."""
    kinds, starts, jumpdests = evm.instruction_starts(code)
    n = len(code)
    prev_push = {}
    last = None
    for s in starts:
        if last is not None and kinds[last] == "P":
            prev_push[s] = int.from_bytes(code[last + 1:last + 1 + (code[last] - 0x5f)], "big")
        elif last is not None and code[last] == 0x5f and kinds[last] == "O":
            prev_push[s] = 0
        last = s
    seen = set()
    work = [0]
    while work:
        pc = work.pop()
        while pc < n and pc not in seen:
            seen.add(pc)
            k = kinds[pc]
            b = code[pc]
            if k == "P":
                w = b - 0x5f
                seen.update(range(pc + 1, pc + 1 + w))
                pc += 1 + w
                continue
            if k in ("I", "T") or b not in evm.OPS:
                break
            name = evm.OPS[b][0]
            if name in ("JUMP", "JUMPI"):
                if pc in prev_push:
                    t = prev_push[pc]
                    targets = [t] if t in jumpdests else []
                else:
                    targets = sorted(jumpdests)
                for t in targets:
                    if t not in seen:
                        work.append(t)
                if name == "JUMP":
                    break
            elif name in ("STOP", "RETURN", "REVERT", "SELFDESTRUCT", "INVALID"):
                break
            pc += 1
    return seen
