"""Concrete semantics of value trees (EVM word arithmetic), an evaluator and a reference constant folder."""
import hashlib
import json

M = (1 << 256)
MASK = M - 1
SIGN = 1 << 255


def s(x):
    return x - M if x & SIGN else x


def u(x):
    return x & MASK


def op_div(a, b):
    return 0 if b == 0 else a // b


def op_sdiv(a, b):
    if b == 0:
        return 0
    sa, sb = s(a), s(b)
    q = abs(sa) // abs(sb)
    if (sa < 0) != (sb < 0):
        q = -q
    return u(q)


def op_mod(a, b):
    return 0 if b == 0 else a % b


def op_smod(a, b):
    if b == 0:
        return 0
    sa, sb = s(a), s(b)
    r = abs(sa) % abs(sb)
    return u(-r if sa < 0 else r)


def op_shl(shift, value):
    return 0 if shift >= 256 else u(value << shift)


def op_shr(shift, value):
    return 0 if shift >= 256 else value >> shift


def op_sar(shift, value):
    sv = s(value)
    if shift >= 256:
        return u(-1) if sv < 0 else 0
    return u(sv >> shift)


def op_signextend(b, x):
    if b < 31:
        bit = 8 * b + 7
        mask = (1 << (bit + 1)) - 1
        if x & (1 << bit):
            return u(x | (MASK ^ mask))
        return x & mask
    return x


def op_byte(i, x):
    return 0 if i >= 32 else (x >> (8 * (31 - i))) & 0xff


BIN = {
    "add": lambda a, b: u(a + b),
    "mul": lambda a, b: u(a * b),
    "sub": lambda a, b: u(a - b),
    "div": op_div,
    "sdiv": op_sdiv,
    "mod": op_mod,
    "smod": op_smod,
    "exp": lambda a, b: pow(a, b, M),
    "lt": lambda a, b: int(a < b),
    "gt": lambda a, b: int(a > b),
    "slt": lambda a, b: int(s(a) < s(b)),
    "sgt": lambda a, b: int(s(a) > s(b)),
    "eq": lambda a, b: int(a == b),
    "and": lambda a, b: a & b,
    "or": lambda a, b: a | b,
    "xor": lambda a, b: a ^ b,
    "shl": op_shl,   # children: shift, value
    "shr": op_shr,
    "sar": op_sar,
}
UN = {
    "iszero": lambda a: int(a == 0),
    "not": lambda a: a ^ MASK,
}
FOLDABLE = set(BIN) | set(UN)
NON_FOLDABLE_BIN = {"signext": op_signextend}


def const(v):
    return ["k", "0x%064x" % (v & MASK)]


def is_const(t):
    return isinstance(t, list) and t and t[0] == "k"


def cval(t):
    return int(t[1], 16)


def children(t):
    return [c for c in t[1:] if isinstance(c, list)]


def uninterpreted(tag, vals):
    h = hashlib.sha256((tag + ":" + ",".join("%x" % v for v in vals)).encode()).digest()
    return int.from_bytes(h, "big")


def evaluate(t, rho, wide_modulo=False):
    """Evaluates tree t under valuation rho: leaf name -> int. Nodes outside the arithmetic fragment are treated as
    uninterpreted functions of their children's values (so that structure-preserving rewrites are still compared)."""
    tag = t[0]
    if tag == "k":
        return cval(t)
    if tag == "v":
        return rho(t[1])
    if tag == "packed":
        return uninterpreted("packed", [x for e in t[1:] if isinstance(e, list)
                                        for x in (e[0], e[1], evaluate(e[2], rho))])
    kids = children(t)
    if tag == "cd":
        return uninterpreted("cd:%s" % t[1], [evaluate(k, rho) for k in kids])
    if tag in ("mapix", "subword", "shifted"):
        meta = [c for c in t[1:] if isinstance(c, dict)]
        tag = tag + json.dumps(meta, sort_keys=True)
    if tag in BIN and len(kids) == 2:
        return BIN[tag](evaluate(kids[0], rho), evaluate(kids[1], rho))
    if tag in UN and len(kids) == 1:
        return UN[tag](evaluate(kids[0], rho))
    if tag == "signext" and len(kids) == 2:
        return op_signextend(evaluate(kids[0], rho), evaluate(kids[1], rho))
    return uninterpreted(tag, [evaluate(k, rho) for k in kids])


def fold_ref(t):
    """Reference folder: a node is replaced by its exact EVM result iff all its children are constants (after folding
    them) and it is one of the 21 foldable operators; otherwise it is the same operator over the folded children in
    the same positions."""
    tag = t[0]
    if tag in ("k", "v"):
        return t
    if tag == "packed":
        return ["packed"] + [[e[0], e[1], fold_ref(e[2])] if isinstance(e, list) else e for e in t[1:]]
    new = [tag]
    for c in t[1:]:
        new.append(fold_ref(c) if isinstance(c, list) else c)
    kids = children(new)
    if tag in BIN and len(kids) == 2 and all(is_const(k) for k in kids):
        return const(BIN[tag](cval(kids[0]), cval(kids[1])))
    if tag in UN and len(kids) == 1 and is_const(kids[0]):
        return const(UN[tag](cval(kids[0])))
    return new


def strip_meta(t):
    """Drops trailing annotation objects ({"ip":..,"sz":..}) so trees can be compared structurally."""
    if not isinstance(t, list):
        return t
    out = []
    for c in t:
        if isinstance(c, dict):
            if "proj" in c or "off" in c or "size" in c:
                out.append({k: v for k, v in c.items() if k in ("proj", "off", "size")})
            continue
        out.append(strip_meta(c))
    return out


def leaf_names(t, acc=None):
    acc = acc if acc is not None else set()
    if isinstance(t, list) and t:
        if t[0] == "v":
            acc.add(t[1])
        elif t[0] == "packed":
            for e in t[1:]:
                if isinstance(e, list):
                    leaf_names(e[2], acc)
        else:
            for c in t[1:]:
                leaf_names(c, acc)
    return acc


def meta_of(t):
    for c in t[1:]:
        if isinstance(c, dict) and "ip" in c:
            return c
    return {}


def evaluate_state(t, code=None, rho=None):
    """Evaluates an (optionally annotated) tree taken from a VM state of an all-constant program.
    - an `sload` node denotes the value it loaded, an `unwritten` node the initial storage value 0;
    - a `mod` node created at an ADDMOD / MULMOD instruction (same instruction pointer on the node and on its
      add / mul child, and that byte of the code is 0x08 / 0x09) denotes the un-wrapped wide operation: that is how
      the VM encodes those opcodes.
    Returns an int, or None when the tree contains something that has no constant value (opaque leaf, hash...)."""
    tag = t[0]
    if tag == "k":
        return cval(t)
    if tag == "v" or tag == "cd":
        return rho(t[1]) if rho else None
    kids = children(t)
    if tag == "sload" and len(kids) == 2:
        return evaluate_state(kids[1], code, rho)
    if tag == "unwritten":
        return 0
    if tag == "mod" and code is not None and len(kids) == 2:
        ip = meta_of(t).get("ip")
        inner = kids[0]
        if ip is not None and ip < len(code) and code[ip] in (0x08, 0x09) and inner[0] in ("add", "mul") \
                and meta_of(inner).get("ip") == ip:
            ik = children(inner)
            a, b = evaluate_state(ik[0], code, rho), evaluate_state(ik[1], code, rho)
            n = evaluate_state(kids[1], code, rho)
            if a is None or b is None or n is None:
                return None
            if n == 0:
                return 0
            return ((a + b) if code[ip] == 0x08 else (a * b)) % n
    vals = [evaluate_state(k, code, rho) for k in kids]
    if any(v is None for v in vals):
        return None
    if tag in BIN and len(kids) == 2:
        return BIN[tag](vals[0], vals[1])
    if tag in UN and len(kids) == 1:
        return UN[tag](vals[0])
    if tag == "signext" and len(kids) == 2:
        return op_signextend(vals[0], vals[1])
    return None
