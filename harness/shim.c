/* getrandom() interposer: makes every HashMap RandomState and every Uuid::new_v4() in the driver a deterministic
 * function of a seed chosen per request (the driver calls slx_shim_reseed before spawning the request's thread; std
 * and the rand crate obtain their per-thread keys through getrandom). With the shim switched off it forwards to the
 * kernel, i.e. natural behaviour. Loaded with LD_PRELOAD by the worker pool; no library source is changed for this. */
#define _GNU_SOURCE
#include <stdint.h>
#include <stdlib.h>
#include <string.h>
#include <sys/syscall.h>
#include <sys/types.h>
#include <unistd.h>

static uint64_t state;
static int active = 0;
static unsigned long calls = 0;

void slx_shim_reseed(uint64_t seed) { state = seed; active = 1; }
void slx_shim_off(void) { active = 0; }
unsigned long slx_shim_calls(void) { return calls; }

static uint64_t next(void) {
    uint64_t z = (state += 0x9e3779b97f4a7c15ULL);
    z = (z ^ (z >> 30)) * 0xbf58476d1ce4e5b9ULL;
    z = (z ^ (z >> 27)) * 0x94d049bb133111ebULL;
    return z ^ (z >> 31);
}

ssize_t getrandom(void *buf, size_t len, unsigned int flags) {
    calls++;
    if (!active) return syscall(SYS_getrandom, buf, len, flags);
    unsigned char *p = buf;
    size_t i = 0;
    while (i < len) {
        uint64_t v = next();
        size_t n = len - i < 8 ? len - i : 8;
        memcpy(p + i, &v, n);
        i += n;
    }
    return (ssize_t)len;
}
