//! slx-driver: a thin JSONL server around the real public API of storage-layout-extractor.
//!
//! One request per line on stdin, one response per line on stdout. Every request runs on a fresh thread (fresh
//! per-thread hash seeds, a stack of the requested size) inside `catch_unwind`; a panic is reported with its message
//! and source location. Aborts and native stack overflows kill the process: the pool on the other side of the pipe
//! attributes that to the request in flight.

mod analyze;
mod ds;
mod mon;
mod ops;
mod te;
mod tree;

use std::{
    io::{BufRead, Write},
    sync::Mutex,
};

use serde_json::{json, Value as J};

static LAST_PANIC: Mutex<Option<(String, String, u32)>> = Mutex::new(None);

// The driver must have been built with the verification cfg; referencing the hook module makes a build without it
// fail to compile rather than run unmonitored.
#[allow(unused_imports)]
use storage_layout_extractor::verif as _verif_must_exist;

#[cfg(not(miri))]
mod shim {
    use std::ffi::{c_char, c_void, CStr};
    extern "C" {
        fn dlsym(handle: *mut c_void, symbol: *const c_char) -> *mut c_void;
    }
    fn lookup(name: &CStr) -> *mut c_void {
        // RTLD_DEFAULT == NULL on glibc
        unsafe { dlsym(std::ptr::null_mut(), name.as_ptr()) }
    }
    pub fn present() -> bool {
        !lookup(c"slx_shim_reseed").is_null()
    }
    pub fn reseed(seed: u64) -> bool {
        let p = lookup(c"slx_shim_reseed");
        if p.is_null() {
            return false;
        }
        let f: extern "C" fn(u64) = unsafe { std::mem::transmute(p) };
        f(seed);
        true
    }
    pub fn off() {
        let p = lookup(c"slx_shim_off");
        if !p.is_null() {
            let f: extern "C" fn() = unsafe { std::mem::transmute(p) };
            f();
        }
    }
}

#[cfg(miri)]
mod shim {
    pub fn present() -> bool {
        false
    }
    pub fn reseed(_seed: u64) -> bool {
        false
    }
    pub fn off() {}
}

fn dispatch(req: &J) -> J {
    match req.get("op").and_then(J::as_str).unwrap_or("") {
        "analyze" => analyze::handle(req),
        "disasm" => ops::disasm(req),
        "disasm_sweep" => ops::disasm_sweep(req),
        "tc_layout" => ops::tc_layout(req),
        "fold" => ops::fold(req),
        "unify" => ops::unify(req),
        "merge_batch" => ops::merge_batch(req),
        "json" => ops::json_roundtrip(req),
        "ds" => ds::handle(req),
        "batch" => {
            let empty = Vec::new();
            let subs = req.get("reqs").and_then(J::as_array).unwrap_or(&empty);
            let mut results = Vec::with_capacity(subs.len());
            for sub in subs {
                if let Ok(mut g) = LAST_PANIC.lock() {
                    *g = None;
                }
                let r = std::panic::catch_unwind(std::panic::AssertUnwindSafe(|| dispatch(sub)));
                results.push(match r {
                    Ok(v) => v,
                    Err(_) => {
                        // a monitor may have been left installed by the panicking request
                        let _ = storage_layout_extractor::verif::uninstall();
                        let (msg, file, line) = LAST_PANIC
                            .lock()
                            .ok()
                            .and_then(|mut g| g.take())
                            .unwrap_or_else(|| ("unknown".into(), "?".into(), 0));
                        json!({"class": "panic", "msg": msg, "file": file, "line": line})
                    }
                });
            }
            json!({"class": "ok", "results": results})
        }
        "ping" => json!({"class": "ok", "shim": shim::present(), "debug_assertions": cfg!(debug_assertions)}),
        "crash" => {
            // self-test hooks for the pool: deliberate panic / abort / stack overflow
            match req.get("how").and_then(J::as_str).unwrap_or("panic") {
                "abort" => std::process::abort(),
                "overflow" => {
                    fn rec(n: u64) -> u64 {
                        let a = [n; 64];
                        if n == 0 { 0 } else { rec(n - 1) + a[(n % 64) as usize] }
                    }
                    json!({"class": "ok", "v": rec(u64::MAX)})
                }
                _ => panic!("deliberate panic"),
            }
        }
        other => json!({"class": "harness_error", "msg": format!("unknown op {other}")}),
    }
}

#[repr(C)]
struct Timespec {
    tv_sec:  i64,
    tv_nsec: i64,
}
extern "C" {
    fn clock_gettime(clk: i32, ts: *mut Timespec) -> i32;
}

/// CPU time consumed by this process (CLOCK_PROCESS_CPUTIME_ID), in seconds.
fn cpu_seconds() -> f64 {
    let mut ts = Timespec { tv_sec: 0, tv_nsec: 0 };
    unsafe {
        clock_gettime(2, &mut ts);
    }
    ts.tv_sec as f64 + ts.tv_nsec as f64 * 1e-9
}

fn main() {
    std::panic::set_hook(Box::new(|info| {
        let msg = if let Some(s) = info.payload().downcast_ref::<&str>() {
            (*s).to_string()
        } else if let Some(s) = info.payload().downcast_ref::<String>() {
            s.clone()
        } else {
            "non-string panic payload".to_string()
        };
        let (file, line) = info.location().map_or(("?".to_string(), 0), |l| (l.file().to_string(), l.line()));
        if let Ok(mut g) = LAST_PANIC.lock() {
            *g = Some((msg, file, line));
        }
    }));

    let stdin = std::io::stdin();
    let stdout = std::io::stdout();
    for line in stdin.lock().lines() {
        let Ok(line) = line else { break };
        if line.trim().is_empty() {
            continue;
        }
        let req: J = match serde_json::from_str(&line) {
            Ok(j) => j,
            Err(e) => {
                let mut out = stdout.lock();
                let _ = writeln!(out, "{}", json!({"id": null, "class": "harness_error", "msg": format!("bad json: {e}")}));
                let _ = out.flush();
                continue;
            }
        };
        let id = req.get("id").cloned().unwrap_or(J::Null);
        // per-request hash/uuid seed
        let mut shim_problem = None;
        match req.get("rand_seed").and_then(J::as_u64) {
            Some(seed) => {
                if !shim::reseed(seed) && !cfg!(miri) {
                    shim_problem = Some("rand_seed requested but the getrandom shim is not loaded");
                }
            }
            None => shim::off(),
        }
        let mut max_gap = 0.0f64;
        let mut resp = if let Some(p) = shim_problem {
            json!({"class": "harness_error", "msg": p})
        } else {
            let stack_mb = req.get("stack_mb").and_then(J::as_u64).unwrap_or(8) as usize;
            if let Ok(mut g) = LAST_PANIC.lock() {
                *g = None;
            }
            let req2 = req.clone();
            let handle = std::thread::Builder::new()
                .stack_size(stack_mb * 1024 * 1024)
                .spawn(move || dispatch(&req2));
            match handle {
                Err(e) => json!({"class": "harness_error", "msg": format!("spawn failed: {e}")}),
                Ok(h) => match {
                    // stall detector (opt-in, `stall_cpu_s`): the worker has burnt that many CPU-seconds without a single
                    // watchdog poll or hook event. CPU time of this process, not wall-clock: load on the machine cannot trip it.
                    if let Some(limit) = req.get("stall_cpu_s").and_then(J::as_f64) {
                        let mut last = mon::PROGRESS.load(std::sync::atomic::Ordering::Relaxed);
                        let mut since = cpu_seconds();
                        while !h.is_finished() {
                            std::thread::sleep(std::time::Duration::from_millis(20));
                            let now = mon::PROGRESS.load(std::sync::atomic::Ordering::Relaxed);
                            let cpu = cpu_seconds();
                            if now != last {
                                max_gap = max_gap.max(cpu - since);
                                last = now;
                                since = cpu;
                            } else if cpu - since >= limit {
                                let mut out = stdout.lock();
                                let _ = writeln!(
                                    out,
                                    "{}",
                                    json!({"id": id.clone(), "class": "stall", "cpu_s_without_progress": cpu - since, "progress_events": now})
                                );
                                let _ = out.flush();
                                std::process::exit(0);
                            }
                        }
                    }
                    h.join()
                } {
                    Ok(v) => v,
                    Err(_) => {
                        let (msg, file, line) = LAST_PANIC
                            .lock()
                            .ok()
                            .and_then(|mut g| g.take())
                            .unwrap_or_else(|| ("unknown".into(), "?".into(), 0));
                        json!({"class": "panic", "msg": msg, "file": file, "line": line})
                    }
                },
            }
        };
        if let Some(o) = resp.as_object_mut() {
            if req.get("stall_cpu_s").is_some() {
                o.insert("max_cpu_gap_s".into(), json!(max_gap));
            }
            o.insert("id".into(), id);
        }
        let mut out = stdout.lock();
        let _ = writeln!(out, "{resp}");
        let _ = out.flush();
    }
}
