//! JSON (de)serialisation of type expressions.
//!
//! `"any"`, `"bytes"`, `["eq", v]`, `["word", width|null, usage]`, `["fixed", elem, "0x.."]`, `["map", k, v]`,
//! `["dyn", elem]`, `["packed", is_struct, [typ, off, size]...]`, `["conflict", n_conflicts]`.

use ethnum::U256;
use serde_json::{json, Value as J};
use storage_layout_extractor::{
    data::vector_map::{FromUniqueIndex, ToUniqueIndex},
    tc::{
        expression::{Span, WordUse, TE},
        state::type_variable::TypeVariable,
    },
};

pub fn tv(i: u64) -> TypeVariable {
    TypeVariable::from_index(i as usize)
}

pub fn usage_name(u: WordUse) -> &'static str {
    match u {
        WordUse::Bytes => "bytes",
        WordUse::Numeric => "numeric",
        WordUse::UnsignedNumeric => "unsigned",
        WordUse::SignedNumeric => "signed",
        WordUse::Bool => "bool",
        WordUse::Address => "address",
        WordUse::Selector => "selector",
        WordUse::Function => "function",
    }
}

pub fn usage_of(s: &str) -> Result<WordUse, String> {
    Ok(match s {
        "bytes" => WordUse::Bytes,
        "numeric" => WordUse::Numeric,
        "unsigned" => WordUse::UnsignedNumeric,
        "signed" => WordUse::SignedNumeric,
        "bool" => WordUse::Bool,
        "address" => WordUse::Address,
        "selector" => WordUse::Selector,
        "function" => WordUse::Function,
        o => return Err(format!("unknown usage {o}")),
    })
}

pub fn ser(te: &TE) -> J {
    match te {
        TE::Any => json!("any"),
        TE::Bytes => json!("bytes"),
        TE::Equal { id } => json!(["eq", id.index()]),
        TE::Word { width, usage } => json!(["word", width, usage_name(*usage)]),
        TE::FixedArray { element, length } => {
            json!(["fixed", element.index(), format!("0x{length:x}")])
        }
        TE::Mapping { key, value } => json!(["map", key.index(), value.index()]),
        TE::DynamicArray { element } => json!(["dyn", element.index()]),
        TE::Packed { types, is_struct } => {
            let mut v = vec![json!("packed"), json!(is_struct)];
            for s in types {
                v.push(json!([s.typ.index(), s.offset, s.size]));
            }
            J::Array(v)
        }
        TE::Conflict { conflicts, reasons } => {
            json!(["conflict", conflicts.len(), reasons.len()])
        }
    }
}

pub fn parse(j: &J) -> Result<TE, String> {
    parse_map(j, &tv)
}

/// As `parse`, with the numeric variable references translated by `tv` (for callers whose variables are not numbered
/// from zero).
pub fn parse_map(j: &J, tv: &dyn Fn(u64) -> TypeVariable) -> Result<TE, String> {
    if let Some(s) = j.as_str() {
        return match s {
            "any" => Ok(TE::Any),
            "bytes" => Ok(TE::Bytes),
            o => Err(format!("unknown te {o}")),
        };
    }
    let a = j.as_array().ok_or("te must be string or array")?;
    let tag = a.first().and_then(J::as_str).ok_or("te tag")?;
    let num = |i: usize| a.get(i).and_then(J::as_u64).ok_or_else(|| format!("te field {i} of {tag}"));
    Ok(match tag {
        "eq" => TE::Equal { id: tv(num(1)?) },
        "word" => TE::Word {
            width: a.get(1).and_then(J::as_u64).map(|w| w as usize),
            usage: usage_of(a.get(2).and_then(J::as_str).ok_or("usage")?)?,
        },
        "fixed" => {
            let l = a.get(2).and_then(J::as_str).ok_or("fixed len")?;
            let l = l.strip_prefix("0x").unwrap_or(l);
            TE::FixedArray {
                element: tv(num(1)?),
                length:  U256::from_str_radix(l, 16).map_err(|e| e.to_string())?,
            }
        }
        "map" => TE::Mapping {
            key:   tv(num(1)?),
            value: tv(num(2)?),
        },
        "dyn" => TE::DynamicArray { element: tv(num(1)?) },
        "packed" => {
            let is_struct = a.get(1).and_then(J::as_bool).ok_or("is_struct")?;
            let mut types = Vec::new();
            for s in &a[2..] {
                let t = s.as_array().ok_or("span")?;
                let g = |i: usize| t.get(i).and_then(J::as_u64).ok_or("span field");
                types.push(Span::new(tv(g(0)?), g(1)? as usize, g(2)? as usize));
            }
            TE::Packed { types, is_struct }
        }
        "conflict" => TE::Conflict {
            conflicts: vec![Box::new(TE::Any), Box::new(TE::Bytes)],
            reasons:   vec!["injected".into()],
        },
        o => return Err(format!("unknown te tag {o}")),
    })
}
