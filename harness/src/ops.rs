//! The small requests: disasm, fold, unify, merge_batch, json.

use std::{cell::Cell, cell::RefCell, rc::Rc};

use ethnum::U256;
use serde_json::{json, Value as J};
use storage_layout_extractor::{
    data::vector_map::ToUniqueIndex,
    disassembly::InstructionStream,
    layout::StorageSlot,
    opcode::control::JumpDest,
    tc::{
        abi::{AbiType, StructElement},
        state::TypeCheckerState,
        unification,
    },
    utility::U256Wrapper,
    vm::value::{Provenance, RSV},
    watchdog::DynWatchdog,
};

use crate::{
    mon::{DriverMonitor, DriverWatchdog, MonState, RcState},
    te,
    tree,
};

pub fn disasm(req: &J) -> J {
    let code_hex = req.get("code").and_then(J::as_str).unwrap_or("");
    let code = match hex::decode(code_hex) {
        Ok(c) => c,
        Err(e) => return json!({"class": "harness_error", "msg": format!("bad hex: {e}")}),
    };
    match InstructionStream::try_from(code.as_slice()) {
        Err(e) => json!({"class": "err", "error": format!("{:?}", e.payload), "location": e.location}),
        Ok(stream) => {
            let len = stream.len();
            let re = stream.as_bytecode();
            let via_into: Vec<u8> = stream.clone().into();
            let mut kinds = String::with_capacity(len);
            let mut bytes: Vec<u8> = Vec::with_capacity(len);
            let mut names: Vec<String> = Vec::new();
            let want_names = req.get("names").and_then(J::as_bool).unwrap_or(false);
            match stream.new_thread(0) {
                Err(e) => return json!({"class": "err", "error": format!("{:?}", e.payload), "location": e.location}),
                Ok(thread) => {
                    let mut i = 0u32;
                    while let Some(op) = thread.instruction(i) {
                        let text = op.as_text_code();
                        let is_jd = op.as_any().is::<JumpDest>();
                        let k = if text == "NOP" {
                            'N'
                        } else if is_jd {
                            'J'
                        } else if text.starts_with("INVALID") {
                            'I'
                        } else if text.starts_with("PUSH") && text != "PUSH0" {
                            'P'
                        } else {
                            'O'
                        };
                        kinds.push(k);
                        bytes.push(if k == 'N' { 0 } else { op.as_byte() });
                        if want_names {
                            names.push(text);
                        }
                        i += 1;
                    }
                }
            }
            let mut r = json!({"class": "ok", "len": len, "roundtrip": hex::encode(re), "roundtrip_into": hex::encode(via_into),
                               "kinds": kinds, "bytes": hex::encode(bytes)});
            if want_names {
                r["names"] = json!(names);
            }
            r
        }
    }
}

pub fn fold(req: &J) -> J {
    let items = match req.get("trees").and_then(J::as_array) {
        Some(a) => a.clone(),
        None => match req.get("tree") {
            Some(t) => vec![t.clone()],
            None => return json!({"class": "harness_error", "msg": "no tree"}),
        },
    };
    let mut out = Vec::with_capacity(items.len());
    for t in &items {
        let mut p = tree::Parser::new(None);
        let v = match p.parse(t) {
            Ok(v) => v,
            Err(e) => return json!({"class": "harness_error", "msg": e}),
        };
        let f1 = v.constant_fold();
        let f2 = f1.constant_fold();
        let n1 = tree::count_nodes(&f1);
        // the same tree as the type checker sees it (every node annotated with a type variable), folded there
        let mut tstate = TypeCheckerState::empty();
        let tvar = tstate.register(v.clone());
        let tc_folded = tstate.value(tvar).map(|tcv| tree::ser(&tcv.constant_fold(), false));
        let rt_folded = tree::ser(&f1, false);
        let tc_same = tc_folded.as_ref().map_or(true, |t| *t == rt_folded);
        out.push(json!({
            "tc_same": tc_same,
            "tc_folded": if tc_same { J::Null } else { tc_folded.unwrap_or(J::Null) },
            "folded": tree::ser(&f1, false),
            "idempotent": *f1 == *f2,
            "twice": if *f1 == *f2 { J::Null } else { tree::ser(&f2, false) },
            "size": f1.size(), "count": n1,
            "in_size": v.size(), "in_count": tree::count_nodes(&v),
        }));
    }
    json!({"class": "ok", "results": out})
}

/// The library's view of one byte string: (kinds, bytes) per offset, or the error it was rejected with.
fn lib_kinds(code: &[u8]) -> Result<(Vec<u8>, Vec<u8>, Vec<u8>), String> {
    let stream = InstructionStream::try_from(code).map_err(|e| format!("{:?}@{}", e.payload, e.location))?;
    let re = stream.as_bytecode();
    // the other documented way back to bytes
    let via_into: Vec<u8> = stream.clone().into();
    if via_into != re {
        return Err(format!("IntoVecDiffers:{}", hex::encode(&via_into)));
    }
    let thread = stream.new_thread(0).map_err(|e| format!("{:?}@{}", e.payload, e.location))?;
    let mut kinds = Vec::with_capacity(code.len());
    let mut bytes = Vec::with_capacity(code.len());
    let mut i = 0u32;
    while let Some(op) = thread.instruction(i) {
        let text = op.as_text_code();
        let k = if text == "NOP" {
            b'N'
        } else if op.as_any().is::<JumpDest>() {
            b'J'
        } else if text.starts_with("INVALID") {
            b'I'
        } else if text.starts_with("PUSH") && text != "PUSH0" {
            b'P'
        } else {
            b'O'
        };
        kinds.push(k);
        bytes.push(if k == b'N' { 0 } else { op.as_byte() });
        i += 1;
    }
    Ok((kinds, bytes, re))
}

/// The driver's own reference disassembly (same rules as vlib/evm.py::disasm_ref; `assigned` comes from the Python
/// opcode table so that there is one source of truth).
fn ref_kinds(code: &[u8], assigned: &[bool; 256]) -> Vec<u8> {
    let n = code.len();
    let mut kinds = vec![0u8; n];
    let mut i = 0;
    while i < n {
        let b = code[i];
        if (0x60..=0x7f).contains(&b) {
            let k = (b - 0x5f) as usize;
            if i + k < n {
                kinds[i] = b'P';
                for x in kinds.iter_mut().take(i + 1 + k).skip(i + 1) {
                    *x = b'N';
                }
                i += k + 1;
            } else {
                for x in kinds.iter_mut().skip(i) {
                    *x = b'T';
                }
                break;
            }
        } else if b == 0x5b {
            kinds[i] = b'J';
            i += 1;
        } else if assigned[b as usize] && b != 0xfe {
            kinds[i] = b'O';
            i += 1;
        } else {
            kinds[i] = b'I';
            i += 1;
        }
    }
    kinds
}

/// Enumerates prefix ++ (every string of `tail` bytes whose first byte lies in [lo, hi)) ++ suffix, disassembles each
/// with the library and compares with the reference, entirely inside the driver.
pub fn disasm_sweep(req: &J) -> J {
    let hexf = |k: &str| hex::decode(req.get(k).and_then(J::as_str).unwrap_or("")).unwrap_or_default();
    let prefix = hexf("prefix");
    let suffix = hexf("suffix");
    let tail = req.get("tail").and_then(J::as_u64).unwrap_or(2) as usize;
    let lo = req.get("lo").and_then(J::as_u64).unwrap_or(0);
    let hi = req.get("hi").and_then(J::as_u64).unwrap_or(256);
    let mask = hexf("assigned");
    if mask.len() != 32 || tail == 0 || tail > 3 {
        return json!({"class": "harness_error", "msg": "disasm_sweep needs assigned (32 bytes) and 1 <= tail <= 3"});
    }
    let mut assigned = [false; 256];
    for (b, slot) in assigned.iter_mut().enumerate() {
        *slot = mask[b / 8] >> (b % 8) & 1 == 1;
    }
    let mut failures: Vec<J> = Vec::new();
    let mut count = 0u64;
    let mut nontrivial = 0u64;
    let per_first = 256u64.pow(tail as u32 - 1);
    let mut code = Vec::with_capacity(prefix.len() + tail + suffix.len());
    for first in lo..hi {
        for rest in 0..per_first {
            code.clear();
            code.extend_from_slice(&prefix);
            code.push(first as u8);
            for j in (0..tail - 1).rev() {
                code.push((rest >> (8 * j)) as u8);
            }
            code.extend_from_slice(&suffix);
            count += 1;
            let want = ref_kinds(&code, &assigned);
            if want.iter().any(|k| *k != b'O') {
                nontrivial += 1;
            }
            let mut bad: Option<String> = None;
            match lib_kinds(&code) {
                Err(e) => bad = Some(format!("rejected:{e}")),
                Ok((kinds, bytes, re)) => {
                    if kinds.len() != code.len() {
                        bad = Some(format!("entries:{}", kinds.len()));
                    } else if re != code {
                        bad = Some("roundtrip".into());
                    } else {
                        for i in 0..code.len() {
                            let (kr, k) = (want[i], kinds[i]);
                            let ok = match kr {
                                b'T' => (k == b'I' || k == b'P' || k == b'N') && (k == b'N' || bytes[i] == code[i]),
                                b'N' => k == b'N',
                                _ => k == kr && bytes[i] == code[i],
                            };
                            if !ok {
                                bad = Some(format!("kind:{}-as-{}@{}", kr as char, k as char, i));
                                break;
                            }
                        }
                    }
                }
            }
            if let Some(what) = bad {
                if failures.len() < 20 {
                    failures.push(json!({"code": hex::encode(&code), "what": what}));
                }
            }
        }
    }
    json!({"class": "ok", "count": count, "nontrivial": nontrivial, "failures": failures})
}

/// Judgement sets as seen by the *whole* type checker: the request names `nvars` opaque values, binds some of them to
/// constant storage slots (value trees `swrite(slot(k), v_i)`), the real `assign_vars` and `infer` run, the request's
/// judgements are added to the variables of those values, and the real `TypeChecker::unify` resolves the types and
/// builds the layout.
pub fn tc_layout(req: &J) -> J {
    use storage_layout_extractor::{tc, vm::value::{known::KnownWord, RSVD, TCSVD}, watchdog::LazyWatchdog};
    let nvars = req.get("nvars").and_then(J::as_u64).unwrap_or(0) as usize;
    let vals: Vec<std::sync::Arc<RSV>> = (0..nvars).map(|_| RSV::new_value(0, Provenance::Synthetic)).collect();
    let ids: Vec<uuid::Uuid> = vals
        .iter()
        .map(|v| match v.data() {
            RSVD::Value { id } => *id,
            _ => uuid::Uuid::nil(),
        })
        .collect();
    let mut values = std::collections::VecDeque::new();
    // every value is known to the checker; those bound to a slot are stored there
    let mut bound = vec![false; nvars];
    let empty = Vec::new();
    for b in req.get("slots").and_then(J::as_array).unwrap_or(&empty) {
        let slot = b.get(0).and_then(J::as_str).unwrap_or("0");
        let vi = b.get(1).and_then(J::as_u64).unwrap_or(0) as usize;
        if vi >= nvars {
            return json!({"class": "harness_error", "msg": "slot bound to unknown value"});
        }
        let word: KnownWord = match tree::parse_word(slot) {
            Ok(w) => w,
            Err(e) => return json!({"class": "harness_error", "msg": e}),
        };
        let key = RSV::new_synthetic(0, RSVD::KnownData { value: word });
        let slot_v = RSV::new_synthetic(0, RSVD::StorageSlot { key });
        values.push_back(RSV::new_synthetic(0, RSVD::StorageWrite { key: slot_v, value: vals[vi].clone() }));
        bound[vi] = true;
    }
    for (i, v) in vals.iter().enumerate() {
        if !bound[i] {
            values.push_back(v.clone());
        }
    }
    let shared = Rc::new(RefCell::new(MonState::new()));
    let budget = req.get("budget").and_then(J::as_u64);
    shared.borrow_mut().stop_at = budget;
    let wd: DynWatchdog = match budget {
        Some(_) => Rc::new(DriverWatchdog { every: 1, stop_at: budget, polls: Cell::new(0), shared: RcState(shared.clone()) }),
        None => LazyWatchdog.in_rc(),
    };
    let mut checker = tc::TypeChecker::new(tc::Config::default(), wd);
    if let Err(e) = checker.assign_vars(values) {
        return json!({"class": "err", "stage": "assign_vars", "error": format!("{e}")});
    }
    if let Err(e) = checker.infer() {
        return json!({"class": "err", "stage": "infer", "error": format!("{e}")});
    }
    // the type variable of each named value
    let mut var_of: Vec<Option<storage_layout_extractor::tc::state::type_variable::TypeVariable>> = vec![None; nvars];
    #[allow(unsafe_code)]
    let state = unsafe { checker.state_mut() };
    for (tvv, val) in state.pairs_cloned() {
        if let TCSVD::Value { id } = val.data() {
            if let Some(i) = ids.iter().position(|x| x == id) {
                var_of[i] = Some(tvv);
            }
        }
    }
    if var_of.iter().any(Option::is_none) {
        return json!({"class": "harness_error", "msg": "a named value got no type variable"});
    }
    let map = |i: u64| var_of[(i as usize).min(nvars.saturating_sub(1))].expect("checked above");
    for jd in req.get("judgements").and_then(J::as_array).unwrap_or(&empty) {
        let var = jd.get(0).and_then(J::as_u64).unwrap_or(0);
        if var as usize >= nvars {
            return json!({"class": "harness_error", "msg": "judgement on unknown var"});
        }
        let expr = match te::parse_map(jd.get(1).unwrap_or(&J::Null), &map) {
            Ok(e) => e,
            Err(e) => return json!({"class": "harness_error", "msg": e}),
        };
        state.infer(map(var), expr);
    }
    match checker.unify() {
        Err(e) => {
            let kinds: Vec<String> = e.payloads().iter().map(|p| format!("{:?}", p.payload).split(|c: char| !c.is_alphanumeric()).next().unwrap_or("").to_string()).collect();
            json!({"class": "err", "stage": "unify", "error": format!("{e}").chars().take(300).collect::<String>(), "kinds": kinds})
        }
        Ok(layout) => {
            let slots: Vec<J> = layout.slots().iter().map(|s| serde_json::to_value(s).unwrap_or(J::Null)).collect();
            json!({"class": "ok", "layout": slots})
        }
    }
}

fn fresh_state(nvars: u64) -> TypeCheckerState {
    let mut state = TypeCheckerState::empty();
    for _ in 0..nvars {
        let _ = state.register(RSV::new_value(0, Provenance::Synthetic));
    }
    state
}

pub fn unify(req: &J) -> J {
    let nvars = req.get("nvars").and_then(J::as_u64).unwrap_or(0);
    let mut state = fresh_state(nvars);
    if state.tyvar_count() as u64 != nvars {
        return json!({"class": "harness_error", "msg": "tyvar numbering assumption broken"});
    }
    let empty = Vec::new();
    for jd in req.get("judgements").and_then(J::as_array).unwrap_or(&empty) {
        let var = jd.get(0).and_then(J::as_u64).unwrap_or(0);
        if var >= nvars {
            return json!({"class": "harness_error", "msg": "judgement on unknown var"});
        }
        let expr = match te::parse(jd.get(1).unwrap_or(&J::Null)) {
            Ok(e) => e,
            Err(e) => return json!({"class": "harness_error", "msg": e}),
        };
        state.infer(te::tv(var), expr);
    }
    let shared = Rc::new(RefCell::new(MonState::new()));
    let budget = req.get("budget").and_then(J::as_u64);
    shared.borrow_mut().stop_at = budget;
    let want_folds = req.get("observe_folds").and_then(J::as_bool).unwrap_or(false);
    shared.borrow_mut().want_folds = want_folds;
    if let Some(f) = req.get("fold") {
        let mut s = shared.borrow_mut();
        s.fold_mode = match f.get("mode").and_then(J::as_str).unwrap_or("natural") {
            "sorted" => crate::mon::FoldMode::Sorted,
            "reversed" => crate::mon::FoldMode::Reversed,
            "shuffle" => crate::mon::FoldMode::Shuffle,
            _ => crate::mon::FoldMode::Natural,
        };
        s.fold_seed = f.get("seed").and_then(J::as_u64).unwrap_or(0);
    }
    storage_layout_extractor::verif::install(Box::new(DriverMonitor(shared.clone())));
    let wd: DynWatchdog = Rc::new(DriverWatchdog {
        every:   1,
        stop_at: budget,
        polls:   Cell::new(0),
        shared:  RcState(shared.clone()),
    });
    let r = unification::unify(&mut state, &wd);
    storage_layout_extractor::verif::uninstall();
    let total = state.tyvar_count();
    let mut mon = shared.borrow().summary();
    if want_folds {
        let s = shared.borrow();
        let tail: Vec<J> = if s.folds_tail.is_empty() { s.folds.clone() } else { s.folds_tail.iter().cloned().collect() };
        mon["folds_tail"] = J::Array(tail);
    }
    match r {
        Err(e) => {
            let stopped = e.payloads().iter().any(|p| format!("{:?}", p.payload).starts_with("StoppedByWatchdog"));
            json!({"class": "err", "stopped": stopped, "error": format!("{e}"), "total_vars": total, "mon": mon})
        }
        Ok(()) => {
            let mut vars = Vec::with_capacity(total);
            for i in 0..total {
                let v = te::tv(i as u64);
                let root = state.result().find(&v).index();
                let data: Option<Vec<J>> = state.result().get_data(&v).map(|set| {
                    let mut items: Vec<J> = set.iter().map(te::ser).collect();
                    items.sort_by_key(|j| j.to_string());
                    items
                });
                vars.push(json!([root, data]));
            }
            json!({"class": "ok", "total_vars": total, "vars": vars, "mon": mon})
        }
    }
}

pub fn merge_batch(req: &J) -> J {
    let nvars = req.get("nvars").and_then(J::as_u64).unwrap_or(4);
    let parent = req.get("parent").and_then(J::as_u64).unwrap_or(0);
    let empty = Vec::new();
    let pairs = req.get("pairs").and_then(J::as_array).unwrap_or(&empty);
    let mut out = Vec::with_capacity(pairs.len());
    for p in pairs {
        let a = te::parse(p.get(0).unwrap_or(&J::Null));
        let b = te::parse(p.get(1).unwrap_or(&J::Null));
        let (a, b) = match (a, b) {
            (Ok(a), Ok(b)) => (a, b),
            (Err(e), _) | (_, Err(e)) => return json!({"class": "harness_error", "msg": e}),
        };
        let mut state = fresh_state(nvars);
        let m = unification::merge(a, b, te::tv(parent), &mut state);
        out.push(json!({
            "expr": te::ser(&m.expression),
            "eqs": m.equalities.iter().map(|e| json!([e.left.index(), e.right.index()])).collect::<Vec<_>>(),
            "judgements": m.judgements.iter().map(|j| json!([j.tv.index(), te::ser(&j.expr)])).collect::<Vec<_>>(),
            "new_vars": m.ty_vars.iter().map(ToUniqueIndex::index).collect::<Vec<_>>(),
        }));
    }
    json!({"class": "ok", "results": out})
}

// ---------------------------------------------------------------------------------------------------------------
// JSON round trip of generated layout entries

struct Rng(u64);
impl Rng {
    fn next(&mut self) -> u64 {
        self.0 = self.0.wrapping_add(0x9e37_79b9_7f4a_7c15);
        let mut z = self.0;
        z = (z ^ (z >> 30)).wrapping_mul(0xbf58_476d_1ce4_e5b9);
        z = (z ^ (z >> 27)).wrapping_mul(0x94d0_49bb_1331_11eb);
        z ^ (z >> 31)
    }

    fn below(&mut self, n: u64) -> u64 {
        self.next() % n
    }

    fn u256(&mut self) -> U256 {
        match self.below(12) {
            0 => U256::ZERO,
            1 => U256::ONE,
            2 => U256::MAX,
            3 => U256::MAX - U256::ONE,
            4 => U256::ONE << (self.below(256) as u32),
            5 => (U256::ONE << (self.below(256) as u32)) - U256::ONE,
            6 => (U256::ONE << (self.below(255) as u32 + 1)) + U256::ONE,
            7 => U256::from(self.next()),
            8 => U256::from_words(self.next() as u128, 0),
            _ => U256::from_words(
                (u128::from(self.next()) << 64) | u128::from(self.next()),
                (u128::from(self.next()) << 64) | u128::from(self.next()),
            ),
        }
    }

    fn opt_size(&mut self) -> Option<usize> {
        match self.below(4) {
            0 => None,
            1 => Some(self.below(257) as usize),
            2 => Some(usize::MAX),
            _ => Some(self.next() as usize),
        }
    }

    fn string(&mut self) -> String {
        const POOL: [&str; 8] = ["", "a", "\"quoted\"", "back\\slash", "uni\u{263a}code", "new\nline", "Word { width: Some(8) }", "\u{0}nul"];
        POOL[self.below(8) as usize].to_string()
    }

    fn abi(&mut self, depth: u32) -> AbiType {
        let leaf = depth == 0;
        let pick = if leaf { self.below(13) } else { self.below(18) };
        match pick {
            0 => AbiType::Any,
            1 => AbiType::Number { size: self.opt_size() },
            2 => AbiType::UInt { size: self.opt_size() },
            3 => AbiType::Int { size: self.opt_size() },
            4 => AbiType::Address,
            5 => AbiType::Selector,
            6 => AbiType::Function,
            7 => AbiType::Bool,
            8 => AbiType::Bytes { length: self.opt_size() },
            9 => AbiType::Bits { length: self.opt_size() },
            10 => AbiType::DynBytes,
            11 => AbiType::InfiniteType,
            12 => {
                let n = self.below(3);
                let m = self.below(3);
                AbiType::ConflictedType {
                    conflicts: (0..n).map(|_| self.string()).collect(),
                    reasons:   (0..m).map(|_| self.string()).collect(),
                }
            }
            13 => AbiType::Array {
                size: U256Wrapper(self.u256()),
                tp:   Box::new(self.abi(depth - 1)),
            },
            14 => AbiType::DynArray {
                tp: Box::new(self.abi(depth - 1)),
            },
            15 => AbiType::Mapping {
                key_type:   Box::new(self.abi(depth - 1)),
                value_type: Box::new(self.abi(depth - 1)),
            },
            _ => {
                let n = self.below(4);
                AbiType::Struct {
                    elements: (0..n)
                        .map(|_| {
                            let off = self.below(300) as usize;
                            StructElement::new(off, self.abi(depth - 1))
                        })
                        .collect(),
                }
            }
        }
    }
}

fn abi_depth(t: &AbiType) -> u32 {
    match t {
        AbiType::Array { tp, .. } | AbiType::DynArray { tp } => 1 + abi_depth(tp),
        AbiType::Mapping { key_type, value_type } => 1 + abi_depth(key_type).max(abi_depth(value_type)),
        AbiType::Struct { elements } => 1 + elements.iter().map(|e| abi_depth(&e.typ)).max().unwrap_or(0),
        _ => 0,
    }
}

fn abi_variant(t: &AbiType) -> &'static str {
    match t {
        AbiType::Any => "any",
        AbiType::Number { .. } => "number",
        AbiType::UInt { .. } => "uint",
        AbiType::Int { .. } => "int",
        AbiType::Address => "address",
        AbiType::Selector => "selector",
        AbiType::Function => "function",
        AbiType::Bool => "bool",
        AbiType::Array { .. } => "array",
        AbiType::Bytes { .. } => "bytes",
        AbiType::Bits { .. } => "bits",
        AbiType::DynArray { .. } => "dyn_array",
        AbiType::DynBytes => "dyn_bytes",
        AbiType::Mapping { .. } => "mapping",
        AbiType::Struct { .. } => "struct",
        AbiType::InfiniteType => "infinite_type",
        AbiType::ConflictedType { .. } => "conflicted_type",
    }
}

/// Generates `n` layout entries from `seed`, round-trips each through serde_json and reports, per entry, the
/// serialised text, the index in decimal (ethnum's `Display`, a code path independent of the hex serialiser), and
/// what came back.
pub fn json_roundtrip(req: &J) -> J {
    let n = req.get("n").and_then(J::as_u64).unwrap_or(100);
    let depth = req.get("depth").and_then(J::as_u64).unwrap_or(3) as u32;
    let mut rng = Rng(req.get("seed").and_then(J::as_u64).unwrap_or(1));
    let full = req.get("full").and_then(J::as_bool).unwrap_or(false);
    let mut entries = Vec::new();
    let mut failures = Vec::new();
    let mut variants: std::collections::BTreeMap<&'static str, u64> = std::collections::BTreeMap::new();
    let mut max_depth = 0;
    let mut batch: Vec<StorageSlot> = Vec::new();
    for i in 0..n {
        let index = rng.u256();
        let offset = match rng.below(8) {
            0 => 0,
            1 => 255,
            _ => rng.below(256) as usize,
        };
        let d = 1 + rng.below(u64::from(depth.max(1))) as u32;
        let leafy = rng.below(10) == 0;
        let typ = rng.abi(if leafy { 0 } else { d });
        *variants.entry(abi_variant(&typ)).or_insert(0) += 1;
        max_depth = max_depth.max(abi_depth(&typ));
        let slot = StorageSlot::new(U256Wrapper(index), offset, typ);
        let text = match serde_json::to_string(&slot) {
            Ok(t) => t,
            Err(e) => {
                failures.push(json!({"i": i, "stage": "serialize", "error": e.to_string(), "debug": format!("{slot:?}")}));
                continue;
            }
        };
        // the other routes through serde: a `Value` tree, an owned reader, a byte slice
        match serde_json::to_value(&slot) {
            Err(e) => failures.push(json!({"i": i, "stage": "serialize:to_value", "error": e.to_string()})),
            Ok(v) => match serde_json::from_value::<StorageSlot>(v) {
                Err(e) => failures.push(json!({"i": i, "stage": "deserialize:from_value", "error": e.to_string(), "text": text})),
                Ok(b) => {
                    if b != slot || serde_json::to_string(&b).unwrap_or_default() != text {
                        failures.push(json!({"i": i, "stage": "compare:from_value", "text": text}));
                    }
                }
            },
        }
        match serde_json::from_reader::<_, StorageSlot>(std::io::Cursor::new(text.clone().into_bytes())) {
            Err(e) => failures.push(json!({"i": i, "stage": "deserialize:from_reader", "error": e.to_string(), "text": text})),
            Ok(b) => {
                if b != slot {
                    failures.push(json!({"i": i, "stage": "compare:from_reader", "text": text}));
                }
            }
        }
        match serde_json::from_slice::<StorageSlot>(text.as_bytes()) {
            Err(e) => failures.push(json!({"i": i, "stage": "deserialize:from_slice", "error": e.to_string(), "text": text})),
            Ok(b) => {
                if b != slot {
                    failures.push(json!({"i": i, "stage": "compare:from_slice", "text": text}));
                }
            }
        }
        // pretty-printed text and a byte vector
        match serde_json::to_string_pretty(&slot) {
            Err(e) => failures.push(json!({"i": i, "stage": "serialize:pretty", "error": e.to_string()})),
            Ok(p) => match serde_json::from_str::<StorageSlot>(&p) {
                Err(e) => failures.push(json!({"i": i, "stage": "deserialize:pretty", "error": e.to_string(), "text": text})),
                Ok(b) => {
                    if b != slot {
                        failures.push(json!({"i": i, "stage": "compare:pretty", "text": text}));
                    }
                }
            },
        }
        match serde_json::to_vec(&slot) {
            Err(e) => failures.push(json!({"i": i, "stage": "serialize:to_vec", "error": e.to_string()})),
            Ok(bytes) => {
                if bytes != text.as_bytes() {
                    failures.push(json!({"i": i, "stage": "compare:to_vec", "text": text}));
                }
            }
        }
        batch.push(slot.clone());
        if batch.len() == 7 {
            // a whole layout (what `StorageLayout::slots()` hands to the user) as one JSON array
            match serde_json::to_string(&batch) {
                Err(e) => failures.push(json!({"i": i, "stage": "serialize:list", "error": e.to_string()})),
                Ok(t) => match serde_json::from_str::<Vec<StorageSlot>>(&t) {
                    Err(e) => failures.push(json!({"i": i, "stage": "deserialize:list", "error": e.to_string(), "text": text})),
                    Ok(b) => {
                        if b != batch {
                            failures.push(json!({"i": i, "stage": "compare:list", "text": text}));
                        }
                    }
                },
            }
            batch.clear();
        }
        let back: Result<StorageSlot, _> = serde_json::from_str(&text);
        match back {
            Err(e) => failures.push(json!({"i": i, "stage": "deserialize", "error": e.to_string(), "text": text})),
            Ok(b) => {
                let text2 = serde_json::to_string(&b).unwrap_or_default();
                let eq = b == slot;
                let same_text = text2 == text;
                let index_back = b.index.0 == index;
                if !(eq && same_text && index_back) {
                    failures.push(json!({"i": i, "stage": "compare", "eq": eq, "same_text": same_text, "index_back": index_back, "text": text, "text2": text2}));
                }
                if full || entries.len() < 50 {
                    entries.push(json!({"text": text, "index_dec": format!("{index}"), "offset": offset, "text2_equal": same_text}));
                } else {
                    // always ship the index cross-check data, compactly
                    let v: J = serde_json::from_str(&text).unwrap_or(J::Null);
                    entries.push(json!({"index_hex": v.get("index"), "index_dec": format!("{index}")}));
                }
            }
        }
    }
    json!({"class": "ok", "n": n, "entries": entries, "failures": failures, "variants": variants, "max_depth": max_depth})
}
