//! Lock-step reference models for `DisjointSet` and `VectorMap` (property C19).
//!
//! The models share nothing with the code under test: the partition is a `Vec<BTreeSet<usize>>`, per-set data is a
//! `BTreeSet<u32>` of unique tags, the map is a `BTreeMap`. After every operation of a history the real structure is
//! cloned and the clone interrogated through its public API; any disagreement ends that history.

use std::{
    collections::{BTreeMap, BTreeSet, HashSet},
    panic::{catch_unwind, AssertUnwindSafe},
};

use serde_json::{json, Value as J};
use storage_layout_extractor::data::{disjoint_set::DisjointSet, vector_map::VectorMap};

type Real = DisjointSet<usize, HashSet<u32>>;

#[derive(Clone, Copy, Debug, PartialEq, Eq)]
pub enum Op {
    Insert(usize),
    Union(usize, usize),
    AddData(usize),
    SetData(usize),
    /// `add_data` with the identity payload (an empty set): registers the element and leaves the data unchanged.
    AddEmpty(usize),
    /// `set_data` with the identity payload: registers the element and clears the set's data.
    SetEmpty(usize),
    /// `add_data` with a two-tag payload.
    AddMulti(usize),
    Find(usize),
    GetData(usize),
    Sets,
}

impl Op {
    fn render(&self) -> String {
        match self {
            Op::Insert(a) => format!("insert({a})"),
            Op::Union(a, b) => format!("union({a},{b})"),
            Op::AddData(a) => format!("add_data({a})"),
            Op::SetData(a) => format!("set_data({a})"),
            Op::AddEmpty(a) => format!("add_data({a},{{}})"),
            Op::SetEmpty(a) => format!("set_data({a},{{}})"),
            Op::AddMulti(a) => format!("add_data({a},two-tags)"),
            Op::Find(a) => format!("find({a})"),
            Op::GetData(a) => format!("get_data({a})"),
            Op::Sets => "sets()".into(),
        }
    }
}

pub fn all_ops(universe: usize, extended: bool) -> Vec<Op> {
    let mut v = Vec::new();
    for a in 0..universe {
        v.push(Op::Insert(a));
    }
    for a in 0..universe {
        for b in 0..universe {
            v.push(Op::Union(a, b));
        }
    }
    for a in 0..universe {
        v.push(Op::AddData(a));
    }
    for a in 0..universe {
        v.push(Op::SetData(a));
    }
    for a in (0..universe).filter(|_| extended) {
        v.push(Op::AddEmpty(a));
        v.push(Op::SetEmpty(a));
        v.push(Op::AddMulti(a));
    }
    for a in 0..universe {
        v.push(Op::Find(a));
    }
    for a in 0..universe {
        v.push(Op::GetData(a));
    }
    v.push(Op::Sets);
    v
}

#[derive(Clone, Default)]
pub struct Model {
    sets: Vec<(BTreeSet<usize>, BTreeSet<u32>)>,
    /// The element the last operation associated data with (add_data / set_data), if it was such an operation: data
    /// "associated with" an element exists afterwards, so `get_data` must answer `Some`, even for the identity payload.
    just_associated: Option<usize>,
}

impl Model {
    fn set_of(&self, v: usize) -> Option<usize> {
        self.sets.iter().position(|(s, _)| s.contains(&v))
    }

    fn touch(&mut self, v: usize) -> usize {
        match self.set_of(v) {
            Some(i) => i,
            None => {
                self.sets.push((BTreeSet::from([v]), BTreeSet::new()));
                self.sets.len() - 1
            }
        }
    }

    fn apply(&mut self, op: Op, tag: u32) {
        self.just_associated = match op {
            Op::AddData(a) | Op::SetData(a) | Op::AddEmpty(a) | Op::SetEmpty(a) | Op::AddMulti(a) => Some(a),
            _ => None,
        };
        match op {
            Op::Insert(a) | Op::Find(a) | Op::GetData(a) => {
                self.touch(a);
            }
            Op::Union(a, b) => {
                let i = self.touch(a);
                let j = self.touch(b);
                if i != j {
                    let (members, data) = self.sets[j].clone();
                    self.sets[i].0.extend(members);
                    self.sets[i].1.extend(data);
                    self.sets.remove(j);
                }
            }
            Op::AddData(a) => {
                let i = self.touch(a);
                self.sets[i].1.insert(tag);
            }
            Op::SetData(a) => {
                let i = self.touch(a);
                self.sets[i].1 = BTreeSet::from([tag]);
            }
            Op::AddEmpty(a) => {
                self.touch(a);
            }
            Op::SetEmpty(a) => {
                let i = self.touch(a);
                self.sets[i].1 = BTreeSet::new();
            }
            Op::AddMulti(a) => {
                let i = self.touch(a);
                self.sets[i].1.insert(tag);
                self.sets[i].1.insert(tag + 100_000);
            }
            Op::Sets => {}
        }
    }
}

fn apply_real(real: &mut Real, op: Op, tag: u32) {
    match op {
        Op::Insert(a) => real.insert(a),
        Op::Union(a, b) => real.union(&a, &b),
        Op::AddData(a) => real.add_data(&a, HashSet::from([tag])),
        Op::SetData(a) => real.set_data(&a, HashSet::from([tag])),
        Op::AddEmpty(a) => real.add_data(&a, HashSet::new()),
        Op::SetEmpty(a) => real.set_data(&a, HashSet::new()),
        Op::AddMulti(a) => real.add_data(&a, HashSet::from([tag, tag + 100_000])),
        Op::Find(a) => {
            let _ = real.find(&a);
        }
        Op::GetData(a) => {
            let _ = real.get_data(&a);
        }
        Op::Sets => {
            let _ = real.sets();
        }
    }
}

/// Compares a clone of the real structure with the model. Returns a description of the first disagreement.
fn compare(real: &Real, model: &Model) -> Option<String> {
    let mut probe = real.clone();
    // membership
    let model_members: BTreeSet<usize> = model.sets.iter().flat_map(|(s, _)| s.iter().copied()).collect();
    let real_members: BTreeSet<usize> = probe.values().into_iter().collect();
    if model_members != real_members {
        return Some(format!("members differ: real {real_members:?} model {model_members:?}"));
    }
    if let Some(a) = model.just_associated {
        if real.clone().get_data(&a).is_none() {
            return Some(format!("data absent: get_data({a}) is None right after data was associated with {a}"));
        }
    }
    // partition and data through find/get_data
    let mut root_of: BTreeMap<usize, usize> = BTreeMap::new();
    for &v in &model_members {
        root_of.insert(v, probe.find(&v));
    }
    for (members, data) in &model.sets {
        let roots: BTreeSet<usize> = members.iter().map(|m| root_of[m]).collect();
        if roots.len() != 1 {
            return Some(format!("set {members:?} has several roots {roots:?}"));
        }
        let root = *roots.iter().next().unwrap();
        if !members.contains(&root) {
            return Some(format!("root {root} of set {members:?} is not a member"));
        }
        for m in members {
            let got: BTreeSet<u32> = probe.get_data(m).map(|d| d.iter().copied().collect()).unwrap_or_default();
            if &got != data {
                return Some(format!("data of {m} in set {members:?}: real {got:?} model {data:?}"));
            }
        }
    }
    // different model sets must have different roots
    let distinct: BTreeSet<usize> = model.sets.iter().map(|(m, _)| root_of[m.iter().next().unwrap()]).collect();
    if distinct.len() != model.sets.len() {
        return Some("two model sets share a root".into());
    }
    // sets() enumeration
    let mut probe2 = real.clone();
    let listed = probe2.sets();
    if listed.len() != model.sets.len() {
        return Some(format!("sets() lists {} sets, model has {}", listed.len(), model.sets.len()));
    }
    for (root, data) in listed {
        let Some(i) = model.set_of(root) else {
            return Some(format!("sets() lists unknown root {root}"));
        };
        let got: BTreeSet<u32> = data.iter().copied().collect();
        if got != model.sets[i].1 {
            return Some(format!("sets() data for root {root}: real {got:?} model {:?}", model.sets[i].1));
        }
    }
    None
}

pub struct Stats {
    pub histories:   u64,
    pub ops_checked: u64,
    pub violations:  BTreeMap<String, (u64, J)>,
    pub distinct_partitions: BTreeSet<String>,
}

fn signature(history: &[Op], what: &str, model_before: &Model) -> String {
    // classify the last op relative to the model state before it
    let last = history.last().unwrap();
    let ctx = match last {
        Op::Insert(a) => match model_before.set_of(*a) {
            None => "insert-new".to_string(),
            Some(i) => {
                if model_before.sets[i].0.len() > 1 {
                    "insert-existing-in-multi-set".to_string()
                } else {
                    "insert-existing-singleton".to_string()
                }
            }
        },
        other => other.render().split('(').next().unwrap_or("").to_string(),
    };
    let class = if what.starts_with("panic") {
        "panic"
    } else if what.starts_with("data absent") {
        "data-presence"
    } else if what.starts_with("data") || what.starts_with("sets() data") {
        "data"
    } else {
        "partition"
    };
    format!("ds:{ctx}:{class}")
}

fn dfs(
    real: &Real,
    model: &Model,
    history: &mut Vec<Op>,
    ops: &[Op],
    depth: usize,
    tag: u32,
    stats: &mut Stats,
) {
    if depth == 0 {
        stats.histories += 1;
        return;
    }
    for &op in ops {
        let mut r = real.clone();
        let mut m = model.clone();
        history.push(op);
        let outcome = catch_unwind(AssertUnwindSafe(|| apply_real(&mut r, op, tag)));
        m.apply(op, tag);
        stats.ops_checked += 1;
        let problem = match outcome {
            Err(p) => Some(format!("panic: {}", panic_text(&p))),
            Ok(()) => match catch_unwind(AssertUnwindSafe(|| compare(&r, &m))) {
                Ok(c) => c,
                Err(p) => Some(format!("panic in query: {}", panic_text(&p))),
            },
        };
        match problem {
            Some(what) => {
                let sig = signature(history, &what, model);
                let entry = stats.violations.entry(sig).or_insert_with(|| {
                    (0, json!({"history": history.iter().map(Op::render).collect::<Vec<_>>(), "what": what}))
                });
                entry.0 += 1;
                stats.histories += 1;
            }
            None => {
                if stats.distinct_partitions.len() < 100_000 {
                    stats.distinct_partitions.insert(format!("{:?}", m.sets));
                }
                dfs(&r, &m, history, ops, depth - 1, tag + 1, stats);
            }
        }
        history.pop();
    }
}

pub fn panic_text(p: &Box<dyn std::any::Any + Send>) -> String {
    if let Some(s) = p.downcast_ref::<&str>() {
        (*s).to_string()
    } else if let Some(s) = p.downcast_ref::<String>() {
        s.clone()
    } else {
        "non-string panic".into()
    }
}

struct Rng(u64);
impl Rng {
    fn next(&mut self) -> u64 {
        self.0 = self.0.wrapping_add(0x9e37_79b9_7f4a_7c15);
        let mut z = self.0;
        z = (z ^ (z >> 30)).wrapping_mul(0xbf58_476d_1ce4_e5b9);
        z = (z ^ (z >> 27)).wrapping_mul(0x94d0_49bb_1331_11eb);
        z ^ (z >> 31)
    }

    fn below(&mut self, n: usize) -> usize {
        (self.next() % n as u64) as usize
    }
}

// ------------------------------------------------------------------------------------------------ VectorMap

#[derive(Clone, Copy, Debug)]
pub enum MOp {
    Insert(usize),
    Remove(usize),
}

fn vm_compare(real: &VectorMap<usize, u32>, model: &BTreeMap<usize, u32>, universe: usize) -> Option<String> {
    for k in 0..universe + 2 {
        if real.get(&k) != model.get(&k) {
            return Some(format!("get({k}): real {:?} model {:?}", real.get(&k), model.get(&k)));
        }
    }
    let it: Vec<(usize, u32)> = real.iter().map(|(k, v)| (k, *v)).collect();
    let mt: Vec<(usize, u32)> = model.iter().map(|(k, v)| (*k, *v)).collect();
    if it != mt {
        return Some(format!("iter: real {it:?} model {mt:?}"));
    }
    let idx: Vec<usize> = real.indices().collect();
    if idx != model.keys().copied().collect::<Vec<_>>() {
        return Some(format!("indices: real {idx:?}"));
    }
    let vals: Vec<u32> = real.values().copied().collect();
    if vals != model.values().copied().collect::<Vec<_>>() {
        return Some(format!("values: real {vals:?}"));
    }
    if real.len() != model.len() {
        return Some(format!("len: real {} model {}", real.len(), model.len()));
    }
    if real.is_empty() != model.is_empty() {
        return Some(format!("is_empty: real {} model {}", real.is_empty(), model.is_empty()));
    }
    // the rest of the public API
    // (max_key_index() and capacity() are deliberately not compared: the property speaks of contents, presence and
    // length. max_key_index() does report the backing vector's last index rather than the largest stored key after
    // the largest key has been removed - noted in DESIGN.md as an observation outside the property.)
    let mut c = real.clone();
    for k in 0..universe + 2 {
        let gm = c.get_mut(&k).map(|v| *v);
        if gm != model.get(&k).copied() {
            return Some(format!("get_mut({k}): real {gm:?} model {:?}", model.get(&k)));
        }
    }
    let im: Vec<(usize, u32)> = c.iter_mut().map(|(k, v)| (k, *v)).collect();
    if im != mt {
        return Some(format!("iter_mut: real {im:?} model {mt:?}"));
    }
    // writes through get_mut / iter_mut land in the right entries
    for (k, v) in c.iter_mut() {
        *v = v.wrapping_add(1000 + k as u32);
    }
    for (k, v) in model {
        if c.get(k) != Some(&v.wrapping_add(1000 + *k as u32)) {
            return Some(format!("iter_mut write: entry {k} holds {:?}", c.get(k)));
        }
    }
    let ii: Vec<usize> = real.clone().into_indices().collect();
    if ii != model.keys().copied().collect::<Vec<_>>() {
        return Some(format!("into_indices: real {ii:?}"));
    }
    let iv: Vec<u32> = real.clone().into_values().collect();
    if iv != model.values().copied().collect::<Vec<_>>() {
        return Some(format!("into_values: real {iv:?}"));
    }
    None
}

fn vm_signature(op: MOp, present_before: bool, what: &str) -> String {
    let ctx = match (op, present_before) {
        (MOp::Insert(_), true) => "overwrite",
        (MOp::Insert(_), false) => "insert",
        (MOp::Remove(_), true) => "remove-present",
        (MOp::Remove(_), false) => "remove-absent",
    };
    let class = if what.starts_with("panic") {
        "panic"
    } else if what.starts_with("len") || what.starts_with("is_empty") {
        "len"
    } else {
        "contents"
    };
    format!("vmap:{ctx}:{class}")
}

fn vm_dfs(
    real: &VectorMap<usize, u32>,
    model: &BTreeMap<usize, u32>,
    history: &mut Vec<String>,
    universe: usize,
    depth: usize,
    tag: u32,
    stats: &mut Stats,
) {
    if depth == 0 {
        stats.histories += 1;
        return;
    }
    let mut ops = Vec::new();
    for k in 0..universe {
        ops.push(MOp::Insert(k));
        ops.push(MOp::Remove(k));
    }
    for op in ops {
        let mut r = real.clone();
        let mut m = model.clone();
        let present = match op {
            MOp::Insert(k) | MOp::Remove(k) => m.contains_key(&k),
        };
        history.push(format!("{op:?}"));
        let mut removed_real: Option<Option<u32>> = None;
        let outcome = catch_unwind(AssertUnwindSafe(|| match op {
            MOp::Insert(k) => {
                r.insert(&k, tag);
                None
            }
            MOp::Remove(k) => Some(r.remove(&k)),
        }));
        let removed_model = match op {
            MOp::Insert(k) => {
                m.insert(k, tag);
                None
            }
            MOp::Remove(k) => Some(m.remove(&k)),
        };
        stats.ops_checked += 1;
        let problem = match outcome {
            Err(p) => Some(format!("panic: {}", panic_text(&p))),
            Ok(rr) => {
                removed_real = rr;
                if removed_real != removed_model {
                    Some(format!("contents: remove returned {removed_real:?}, model {removed_model:?}"))
                } else {
                    vm_compare(&r, &m, universe)
                }
            }
        };
        let _ = removed_real;
        match problem {
            Some(what) => {
                let sig = vm_signature(op, present, &what);
                let entry = stats
                    .violations
                    .entry(sig)
                    .or_insert_with(|| (0, json!({"history": history.clone(), "what": what})));
                entry.0 += 1;
                stats.histories += 1;
            }
            None => {
                if stats.distinct_partitions.len() < 100_000 {
                    stats.distinct_partitions.insert(format!("{m:?}"));
                }
                vm_dfs(&r, &m, history, universe, depth - 1, tag + 1, stats);
            }
        }
        history.pop();
    }
}

pub fn handle(req: &J) -> J {
    let mode = req.get("mode").and_then(J::as_str).unwrap_or("exhaustive");
    let target = req.get("target").and_then(J::as_str).unwrap_or("ds");
    let universe = req.get("universe").and_then(J::as_u64).unwrap_or(4) as usize;
    let len = req.get("len").and_then(J::as_u64).unwrap_or(3) as usize;
    let mut stats = Stats {
        histories:   0,
        ops_checked: 0,
        violations:  BTreeMap::new(),
        distinct_partitions: BTreeSet::new(),
    };
    // silence the default panic printer while we deliberately catch panics
    match (target, mode) {
        ("ds", "exhaustive") => {
            let ops = all_ops(universe, req.get("extended").and_then(J::as_bool).unwrap_or(true));
            // optional sharding on the first `prefix` operations
            let shard = req.get("shard").and_then(J::as_u64).unwrap_or(0) as usize;
            let shards = req.get("shards").and_then(J::as_u64).unwrap_or(1) as usize;
            let real = Real::new();
            let model = Model::default();
            let mut history = Vec::new();
            if shards <= 1 || len < 2 {
                dfs(&real, &model, &mut history, &ops, len, 1, &mut stats);
            } else {
                // enumerate the first two ops here and hand out (i*|ops|+j) % shards == shard
                for (i, &a) in ops.iter().enumerate() {
                    for (j, &b) in ops.iter().enumerate() {
                        if (i * ops.len() + j) % shards != shard {
                            continue;
                        }
                        let mut r = real.clone();
                        let mut m = model.clone();
                        let mut ok = true;
                        history.clear();
                        for (n, op) in [a, b].into_iter().enumerate() {
                            history.push(op);
                            let before = m.clone();
                            let out = catch_unwind(AssertUnwindSafe(|| apply_real(&mut r, op, 1 + n as u32)));
                            m.apply(op, 1 + n as u32);
                            stats.ops_checked += 1;
                            let problem = match out {
                                Err(p) => Some(format!("panic: {}", panic_text(&p))),
                                Ok(()) => compare(&r, &m),
                            };
                            if let Some(what) = problem {
                                let sig = signature(&history, &what, &before);
                                let e = stats.violations.entry(sig).or_insert_with(|| {
                                    (0, json!({"history": history.iter().map(Op::render).collect::<Vec<_>>(), "what": what}))
                                });
                                e.0 += 1;
                                stats.histories += 1;
                                ok = false;
                                break;
                            }
                        }
                        if ok {
                            dfs(&r, &m, &mut history, &ops, len - 2, 3, &mut stats);
                        }
                    }
                }
            }
        }
        ("ds", "random") => {
            let mut rng = Rng(req.get("seed").and_then(J::as_u64).unwrap_or(1));
            let count = req.get("count").and_then(J::as_u64).unwrap_or(100);
            for _ in 0..count {
                let mut real = Real::new();
                let mut model = Model::default();
                let mut history: Vec<Op> = Vec::new();
                let hl = 1 + rng.below(len);
                for step in 0..hl {
                    let a = rng.below(universe);
                    let b = if rng.below(4) == 0 { a } else { rng.below(universe) };
                    let op = match rng.below(10) {
                        0 => Op::Insert(a),
                        1..=3 => Op::Union(a, b),
                        4 => Op::AddData(a),
                        5 => match rng.below(4) {
                            0 => Op::AddEmpty(a),
                            1 => Op::SetEmpty(a),
                            2 => Op::AddMulti(a),
                            _ => Op::AddData(a),
                        },
                        6 => Op::SetData(a),
                        7 => Op::Find(a),
                        8 => Op::GetData(a),
                        _ => Op::Sets,
                    };
                    history.push(op);
                    let before = model.clone();
                    let tag = step as u32 + 1;
                    let out = catch_unwind(AssertUnwindSafe(|| apply_real(&mut real, op, tag)));
                    model.apply(op, tag);
                    stats.ops_checked += 1;
                    let problem = match out {
                        Err(p) => Some(format!("panic: {}", panic_text(&p))),
                        Ok(()) => compare(&real, &model),
                    };
                    if let Some(what) = problem {
                        let sig = signature(&history, &what, &before);
                        let e = stats.violations.entry(sig).or_insert_with(|| {
                            (0, json!({"history": history.iter().map(Op::render).collect::<Vec<_>>(), "what": what}))
                        });
                        e.0 += 1;
                        break;
                    }
                }
                if stats.distinct_partitions.len() < 100_000 {
                    stats.distinct_partitions.insert(format!("{:?}", model.sets));
                }
                stats.histories += 1;
            }
        }
        ("vmap", "exhaustive") => {
            let cap = req.get("capacity").and_then(J::as_u64);
            let real: VectorMap<usize, u32> = match cap {
                Some(c) => VectorMap::with_capacity(c as usize),
                None => VectorMap::new(),
            };
            let model = BTreeMap::new();
            let mut history = Vec::new();
            vm_dfs(&real, &model, &mut history, universe, len, 1, &mut stats);
        }
        ("vmap", "random") => {
            let mut rng = Rng(req.get("seed").and_then(J::as_u64).unwrap_or(1));
            let count = req.get("count").and_then(J::as_u64).unwrap_or(100);
            for n in 0..count {
                // every other history starts from with_capacity (0, 1, 2 or more than it will ever hold)
                let mut real: VectorMap<usize, u32> = if n % 2 == 0 {
                    VectorMap::new()
                } else {
                    VectorMap::with_capacity([0usize, 1, 2, 1000][(n as usize / 2) % 4])
                };
                let mut model: BTreeMap<usize, u32> = BTreeMap::new();
                let mut history: Vec<String> = Vec::new();
                let hl = 1 + rng.below(len);
                for step in 0..hl {
                    let k = rng.below(universe);
                    let op = if rng.below(5) < 3 { MOp::Insert(k) } else { MOp::Remove(k) };
                    let present = model.contains_key(&k);
                    history.push(format!("{op:?}"));
                    let tag = step as u32 + 1;
                    let out = catch_unwind(AssertUnwindSafe(|| match op {
                        MOp::Insert(k) => {
                            real.insert(&k, tag);
                            None
                        }
                        MOp::Remove(k) => Some(real.remove(&k)),
                    }));
                    let mm = match op {
                        MOp::Insert(k) => {
                            model.insert(k, tag);
                            None
                        }
                        MOp::Remove(k) => Some(model.remove(&k)),
                    };
                    stats.ops_checked += 1;
                    let problem = match out {
                        Err(p) => Some(format!("panic: {}", panic_text(&p))),
                        Ok(rr) => {
                            if rr != mm {
                                Some(format!("contents: remove returned {rr:?}, model {mm:?}"))
                            } else {
                                vm_compare(&real, &model, universe)
                            }
                        }
                    };
                    if let Some(what) = problem {
                        let sig = vm_signature(op, present, &what);
                        let e = stats
                            .violations
                            .entry(sig)
                            .or_insert_with(|| (0, json!({"history": history.clone(), "what": what})));
                        e.0 += 1;
                        break;
                    }
                }
                if stats.distinct_partitions.len() < 100_000 {
                    stats.distinct_partitions.insert(format!("{model:?}"));
                }
                stats.histories += 1;
            }
        }
        ("combine", _) => {
            // the payload monoids themselves (HashSet, Option<HashSet>, Option<Option<HashSet>>): identity, the
            // Option table, associativity, and a forest carrying an Option payload against a naive model
            use storage_layout_extractor::data::combine::Combine;
            type S = HashSet<u32>;
            let sets: Vec<S> = vec![S::new(), [1].into(), [2].into(), [1, 2].into(), [3, 9].into()];
            let mut opts: Vec<Option<S>> = vec![None];
            opts.extend(sets.iter().cloned().map(Some));
            let model_opt = |a: &Option<S>, b: &Option<S>| -> Option<S> {
                match (a, b) {
                    (None, None) => None,
                    (Some(x), None) | (None, Some(x)) => Some(x.clone()),
                    (Some(x), Some(y)) => Some(x.union(y).copied().collect()),
                }
            };
            let mut note = |sig: &str, what: String, stats: &mut Stats| {
                let e = stats.violations.entry(sig.to_string()).or_insert_with(|| (0, json!({"what": what})));
                e.0 += 1;
            };
            for a in &sets {
                for b in &sets {
                    stats.ops_checked += 1;
                    let want: S = a.union(b).copied().collect();
                    if a.clone().combine(b.clone()) != want {
                        note("combine:hashset:union", format!("{a:?} + {b:?}"), &mut stats);
                    }
                }
                if a.clone().combine(S::identity()) != *a || S::identity().combine(a.clone()) != *a {
                    note("combine:hashset:identity", format!("{a:?}"), &mut stats);
                }
            }
            for a in &opts {
                for b in &opts {
                    stats.ops_checked += 1;
                    let got = a.clone().combine(b.clone());
                    if got != model_opt(a, b) {
                        note("combine:option:table", format!("{a:?} + {b:?} = {got:?}"), &mut stats);
                    }
                    for c in &opts {
                        let l = a.clone().combine(b.clone()).combine(c.clone());
                        let r = a.clone().combine(b.clone().combine(c.clone()));
                        if l != r {
                            note("combine:option:associativity", format!("{a:?} {b:?} {c:?}"), &mut stats);
                        }
                    }
                }
                let id: Option<S> = Combine::identity();
                if a.clone().combine(id.clone()) != *a || id.combine(a.clone()) != *a {
                    note("combine:option:identity", format!("{a:?}"), &mut stats);
                }
                // one more level of Option
                let aa: Option<Option<S>> = Some(a.clone());
                let nn: Option<Option<S>> = None;
                if aa.clone().combine(nn.clone()) != aa || nn.combine(aa.clone()) != aa {
                    note("combine:option-option:identity", format!("{aa:?}"), &mut stats);
                }
            }
            // a forest with an Option payload: random histories over 5 elements against sets of (members, payload)
            let mut rng = Rng(req.get("seed").and_then(J::as_u64).unwrap_or(1));
            let count = req.get("count").and_then(J::as_u64).unwrap_or(200);
            for _ in 0..count {
                let mut real: DisjointSet<usize, Option<S>> = DisjointSet::new();
                let mut model: Vec<(BTreeSet<usize>, Option<S>)> = Vec::new();
                let mut history: Vec<String> = Vec::new();
                for step in 0..(1 + rng.below(len.max(1))) {
                    let a = rng.below(universe);
                    let b = rng.below(universe);
                    let find = |m: &mut Vec<(BTreeSet<usize>, Option<S>)>, v: usize| -> usize {
                        if let Some(i) = m.iter().position(|(s, _)| s.contains(&v)) {
                            i
                        } else {
                            m.push(([v].into(), None));
                            m.len() - 1
                        }
                    };
                    match rng.below(4) {
                        0 => {
                            history.push(format!("union({a},{b})"));
                            real.union(&a, &b);
                            let (i, j) = (find(&mut model, a), find(&mut model, b));
                            if i != j {
                                let (sj, dj) = model[j].clone();
                                let di = model[i].1.clone();
                                model[i].0.extend(sj);
                                model[i].1 = model_opt(&di, &dj);
                                model.remove(j);
                            }
                        }
                        1 => {
                            let payload: Option<S> = Some([step as u32 + 1].into());
                            history.push(format!("add_data({a},{payload:?})"));
                            real.add_data(&a, payload.clone());
                            let i = find(&mut model, a);
                            let d = model[i].1.clone();
                            model[i].1 = model_opt(&d, &payload);
                        }
                        2 => {
                            history.push(format!("add_data({a},None)"));
                            real.add_data(&a, None);
                            let i = find(&mut model, a);
                            let _ = i;
                        }
                        _ => {
                            history.push(format!("find({a})"));
                            let _ = real.find(&a);
                            let _ = find(&mut model, a);
                        }
                    }
                    stats.ops_checked += 1;
                    let mut bad = None;
                    for (members, data) in &model {
                        for m in members {
                            let got = real.get_data(m).cloned();
                            let want = Some(data.clone());
                            // a set that never received data may report no data at all
                            let same = got == want || (got.is_none() && data.is_none()) || (got == Some(None) && data.is_none());
                            if !same {
                                bad = Some(format!("data of {m}: real {got:?} model {data:?}"));
                            }
                        }
                    }
                    if let Some(what) = bad {
                        let e = stats
                            .violations
                            .entry("ds-option-payload:data".to_string())
                            .or_insert_with(|| (0, json!({"history": history.clone(), "what": what})));
                        e.0 += 1;
                        break;
                    }
                }
                stats.histories += 1;
            }
        }
        _ => return json!({"class": "harness_error", "msg": "unknown ds mode"}),
    }
    let samples: Vec<&String> = stats.distinct_partitions.iter().take(5).collect();
    json!({
        "class": "ok",
        "histories": stats.histories,
        "ops_checked": stats.ops_checked,
        "distinct_states": stats.distinct_partitions.len(),
        "sample_states": samples,
        "violations": stats.violations.iter().map(|(k, (n, w))| json!({"signature": k, "count": n, "witness": w})).collect::<Vec<_>>(),
    })
}
