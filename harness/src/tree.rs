//! JSON (de)serialisation of symbolic value trees.
//!
//! Format: `["k","0x.."]` constant, `["v","<id>"]` opaque leaf, nullary nodes `["caller"]`, n-ary nodes
//! `[tag, child...]` in field-declaration order. With `annotate` every node gets a trailing object
//! `{"ip":..,"size":..}`.

use std::{collections::HashMap, fmt::Debug, sync::Arc};

use ethnum::U256;
use serde_json::{json, Value as J};
use storage_layout_extractor::vm::value::{
    known::KnownWord,
    PackedSpan,
    Provenance,
    SymbolicValue,
    RSV,
    RSVD,
    SVD,
};
use uuid::Uuid;

pub fn hex_word(w: &KnownWord) -> String {
    format!("0x{}", hex::encode(w.value_le().to_be_bytes()))
}

pub fn parse_word(s: &str) -> Result<KnownWord, String> {
    let s = s.strip_prefix("0x").unwrap_or(s);
    if s.is_empty() || s.len() > 64 {
        return Err(format!("bad word {s}"));
    }
    let padded = format!("{s:0>64}");
    let bytes = hex::decode(padded).map_err(|e| e.to_string())?;
    let arr: [u8; 32] = bytes.try_into().map_err(|_| "len".to_string())?;
    Ok(KnownWord::from_le(U256::from_be_bytes(arr)))
}

pub fn ser<A: Clone + PartialEq + Debug>(v: &SymbolicValue<A>, annotate: bool) -> J {
    let mut out: Vec<J> = Vec::new();
    let d = v.data();
    let push_children = |tag: &str, kids: Vec<&Arc<SymbolicValue<A>>>, out: &mut Vec<J>| {
        out.push(J::String(tag.into()));
        for k in kids {
            out.push(ser(k, annotate));
        }
    };
    match d {
        SVD::Value { id } => {
            out.push("v".into());
            out.push(J::String(id.to_string()));
        }
        SVD::KnownData { value } => {
            out.push("k".into());
            out.push(J::String(hex_word(value)));
        }
        SVD::Add { left, right } => push_children("add", vec![left, right], &mut out),
        SVD::Multiply { left, right } => push_children("mul", vec![left, right], &mut out),
        SVD::Subtract { left, right } => push_children("sub", vec![left, right], &mut out),
        SVD::Divide { dividend, divisor } => push_children("div", vec![dividend, divisor], &mut out),
        SVD::SignedDivide { dividend, divisor } => push_children("sdiv", vec![dividend, divisor], &mut out),
        SVD::Modulo { dividend, divisor } => push_children("mod", vec![dividend, divisor], &mut out),
        SVD::SignedModulo { dividend, divisor } => push_children("smod", vec![dividend, divisor], &mut out),
        SVD::Exp { value, exponent } => push_children("exp", vec![value, exponent], &mut out),
        SVD::SignExtend { size, value } => push_children("signext", vec![size, value], &mut out),
        SVD::CallWithValue {
            gas,
            address,
            value,
            argument_data,
            ret_offset,
            ret_size,
        } => push_children(
            "callv",
            vec![gas, address, value, argument_data, ret_offset, ret_size],
            &mut out,
        ),
        SVD::CallWithoutValue {
            gas,
            address,
            argument_data,
            ret_offset,
            ret_size,
        } => push_children("call", vec![gas, address, argument_data, ret_offset, ret_size], &mut out),
        SVD::Sha3 { data } => push_children("sha3", vec![data], &mut out),
        SVD::Address => out.push("address".into()),
        SVD::Balance { address } => push_children("balance", vec![address], &mut out),
        SVD::Origin => out.push("origin".into()),
        SVD::Caller => out.push("caller".into()),
        SVD::CallValue => out.push("callvalue".into()),
        SVD::GasPrice => out.push("gasprice".into()),
        SVD::ExtCodeHash { address } => push_children("extcodehash", vec![address], &mut out),
        SVD::BlockHash { block_number } => push_children("blockhash", vec![block_number], &mut out),
        SVD::CoinBase => out.push("coinbase".into()),
        SVD::BlockTimestamp => out.push("timestamp".into()),
        SVD::BlockNumber => out.push("number".into()),
        SVD::Prevrandao => out.push("prevrandao".into()),
        SVD::GasLimit => out.push("gaslimit".into()),
        SVD::ChainId => out.push("chainid".into()),
        SVD::SelfBalance => out.push("selfbalance".into()),
        SVD::BaseFee => out.push("basefee".into()),
        SVD::Gas => out.push("gas".into()),
        SVD::Log { data, topics } => {
            let mut kids = vec![data];
            kids.extend(topics.iter());
            push_children("log", kids, &mut out);
        }
        SVD::Create { value, data } => push_children("create", vec![value, data], &mut out),
        SVD::Create2 { value, salt, data } => push_children("create2", vec![value, salt, data], &mut out),
        SVD::SelfDestruct { target } => push_children("selfdestruct", vec![target], &mut out),
        SVD::LessThan { left, right } => push_children("lt", vec![left, right], &mut out),
        SVD::GreaterThan { left, right } => push_children("gt", vec![left, right], &mut out),
        SVD::SignedLessThan { left, right } => push_children("slt", vec![left, right], &mut out),
        SVD::SignedGreaterThan { left, right } => push_children("sgt", vec![left, right], &mut out),
        SVD::Equals { left, right } => push_children("eq", vec![left, right], &mut out),
        SVD::IsZero { number } => push_children("iszero", vec![number], &mut out),
        SVD::And { left, right } => push_children("and", vec![left, right], &mut out),
        SVD::Or { left, right } => push_children("or", vec![left, right], &mut out),
        SVD::Xor { left, right } => push_children("xor", vec![left, right], &mut out),
        SVD::Not { value } => push_children("not", vec![value], &mut out),
        SVD::LeftShift { shift, value } => push_children("shl", vec![shift, value], &mut out),
        SVD::RightShift { shift, value } => push_children("shr", vec![shift, value], &mut out),
        SVD::ArithmeticRightShift { shift, value } => push_children("sar", vec![shift, value], &mut out),
        SVD::CallData { id, offset, size } => {
            out.push("cd".into());
            out.push(J::String(id.to_string()));
            out.push(ser(offset, annotate));
            out.push(ser(size, annotate));
        }
        SVD::CallDataSize => out.push("calldatasize".into()),
        SVD::CodeCopy { offset, size } => push_children("codecopy", vec![offset, size], &mut out),
        SVD::ExtCodeSize { address } => push_children("extcodesize", vec![address], &mut out),
        SVD::ExtCodeCopy {
            address,
            offset,
            size,
        } => push_children("extcodecopy", vec![address, offset, size], &mut out),
        SVD::ReturnData { offset, size } => push_children("returndata", vec![offset, size], &mut out),
        SVD::Return { data } => push_children("return", vec![data], &mut out),
        SVD::Revert { data } => push_children("revert", vec![data], &mut out),
        SVD::UnwrittenStorageValue { key } => push_children("unwritten", vec![key], &mut out),
        SVD::SLoad { key, value } => push_children("sload", vec![key, value], &mut out),
        SVD::StorageSlot { key } => push_children("slot", vec![key], &mut out),
        SVD::StorageWrite { key, value } => push_children("swrite", vec![key, value], &mut out),
        SVD::Concat { values } => push_children("concat", values.iter().collect(), &mut out),
        SVD::MappingIndex {
            slot,
            key,
            projection,
        } => {
            push_children("mapix", vec![slot, key], &mut out);
            out.push(json!({"proj": projection}));
        }
        SVD::DynamicArrayIndex { slot, index } => push_children("dynix", vec![slot, index], &mut out),
        SVD::SubWord {
            value,
            offset,
            size,
        } => {
            push_children("subword", vec![value], &mut out);
            out.push(json!({"off": offset, "size": size}));
        }
        SVD::Shifted { offset, value } => {
            push_children("shifted", vec![value], &mut out);
            out.push(json!({"off": offset}));
        }
        SVD::Packed { elements } => {
            out.push("packed".into());
            for e in elements {
                out.push(json!([e.offset, e.size, ser(&e.value, annotate)]));
            }
        }
    }
    if annotate {
        out.push(json!({"ip": v.instruction_pointer(), "sz": v.size()}));
    }
    J::Array(out)
}

/// Counts the nodes of a tree by walking it through `children()`.
pub fn count_nodes<A: Clone + PartialEq>(v: &SymbolicValue<A>) -> usize {
    1 + v.children().iter().map(|c| count_nodes(c)).sum::<usize>()
}

pub struct Parser {
    pub ids:   HashMap<String, Uuid>,
    pub limit: Option<usize>,
}

impl Parser {
    pub fn new(limit: Option<usize>) -> Self {
        Self {
            ids: HashMap::new(),
            limit,
        }
    }

    fn id_for(&mut self, name: &str) -> Uuid {
        if let Ok(u) = Uuid::parse_str(name) {
            return u;
        }
        let n = self.ids.len() as u128;
        *self
            .ids
            .entry(name.to_string())
            .or_insert_with(|| Uuid::from_u128(0x5155_0000_0000_4000_8000_0000_0000_0000 + n))
    }

    pub fn parse(&mut self, j: &J) -> Result<Arc<RSV>, String> {
        let arr = j.as_array().ok_or("node must be array")?;
        let tag = arr.first().and_then(J::as_str).ok_or("node tag")?;
        let mut kids: Vec<Arc<RSV>> = Vec::new();
        let mut meta: Option<&J> = None;
        if tag != "k" && tag != "v" && tag != "packed" {
            let start = if tag == "cd" { 2 } else { 1 };
            for c in &arr[start..] {
                if c.is_object() {
                    meta = Some(c);
                } else {
                    kids.push(self.parse(c)?);
                }
            }
        }
        let ip = meta.and_then(|m| m.get("ip")).and_then(J::as_u64).unwrap_or(0) as u32;
        let mut it = kids.into_iter();
        let mut nx = || it.next().ok_or_else(|| format!("missing child for {tag}"));
        let data: RSVD = match tag {
            "k" => RSVD::KnownData {
                value: parse_word(arr.get(1).and_then(J::as_str).ok_or("k needs hex")?)?,
            },
            "v" => {
                let name = match arr.get(1) {
                    Some(J::String(s)) => s.clone(),
                    Some(other) => other.to_string(),
                    None => return Err("v needs id".into()),
                };
                RSVD::Value { id: self.id_for(&name) }
            }
            "add" => RSVD::Add { left: nx()?, right: nx()? },
            "mul" => RSVD::Multiply { left: nx()?, right: nx()? },
            "sub" => RSVD::Subtract { left: nx()?, right: nx()? },
            "div" => RSVD::Divide { dividend: nx()?, divisor: nx()? },
            "sdiv" => RSVD::SignedDivide { dividend: nx()?, divisor: nx()? },
            "mod" => RSVD::Modulo { dividend: nx()?, divisor: nx()? },
            "smod" => RSVD::SignedModulo { dividend: nx()?, divisor: nx()? },
            "exp" => RSVD::Exp { value: nx()?, exponent: nx()? },
            "signext" => RSVD::SignExtend { size: nx()?, value: nx()? },
            "sha3" => RSVD::Sha3 { data: nx()? },
            "address" => RSVD::Address,
            "balance" => RSVD::Balance { address: nx()? },
            "origin" => RSVD::Origin,
            "caller" => RSVD::Caller,
            "callvalue" => RSVD::CallValue,
            "gasprice" => RSVD::GasPrice,
            "extcodehash" => RSVD::ExtCodeHash { address: nx()? },
            "blockhash" => RSVD::BlockHash { block_number: nx()? },
            "coinbase" => RSVD::CoinBase,
            "timestamp" => RSVD::BlockTimestamp,
            "number" => RSVD::BlockNumber,
            "prevrandao" => RSVD::Prevrandao,
            "gaslimit" => RSVD::GasLimit,
            "chainid" => RSVD::ChainId,
            "selfbalance" => RSVD::SelfBalance,
            "basefee" => RSVD::BaseFee,
            "gas" => RSVD::Gas,
            "lt" => RSVD::LessThan { left: nx()?, right: nx()? },
            "gt" => RSVD::GreaterThan { left: nx()?, right: nx()? },
            "slt" => RSVD::SignedLessThan { left: nx()?, right: nx()? },
            "sgt" => RSVD::SignedGreaterThan { left: nx()?, right: nx()? },
            "eq" => RSVD::Equals { left: nx()?, right: nx()? },
            "iszero" => RSVD::IsZero { number: nx()? },
            "and" => RSVD::And { left: nx()?, right: nx()? },
            "or" => RSVD::Or { left: nx()?, right: nx()? },
            "xor" => RSVD::Xor { left: nx()?, right: nx()? },
            "not" => RSVD::Not { value: nx()? },
            "shl" => RSVD::LeftShift { shift: nx()?, value: nx()? },
            "shr" => RSVD::RightShift { shift: nx()?, value: nx()? },
            "sar" => RSVD::ArithmeticRightShift { shift: nx()?, value: nx()? },
            "cd" => {
                let name = arr.get(1).map(|x| x.to_string()).unwrap_or_default();
                let literal = arr.get(1).and_then(J::as_str).and_then(|s| Uuid::parse_str(s).ok());
                RSVD::CallData {
                    id:     literal.unwrap_or_else(|| self.id_for(&format!("cd{name}"))),
                    offset: nx()?,
                    size:   nx()?,
                }
            }
            "callv" => RSVD::CallWithValue {
                gas:           nx()?,
                address:       nx()?,
                value:         nx()?,
                argument_data: nx()?,
                ret_offset:    nx()?,
                ret_size:      nx()?,
            },
            "call" => RSVD::CallWithoutValue {
                gas:           nx()?,
                address:       nx()?,
                argument_data: nx()?,
                ret_offset:    nx()?,
                ret_size:      nx()?,
            },
            "log" => RSVD::Log { data: nx()?, topics: it.by_ref().collect() },
            "create" => RSVD::Create { value: nx()?, data: nx()? },
            "create2" => RSVD::Create2 { value: nx()?, salt: nx()?, data: nx()? },
            "extcodecopy" => RSVD::ExtCodeCopy { address: nx()?, offset: nx()?, size: nx()? },
            "calldatasize" => RSVD::CallDataSize,
            "codecopy" => RSVD::CodeCopy { offset: nx()?, size: nx()? },
            "extcodesize" => RSVD::ExtCodeSize { address: nx()? },
            "returndata" => RSVD::ReturnData { offset: nx()?, size: nx()? },
            "return" => RSVD::Return { data: nx()? },
            "revert" => RSVD::Revert { data: nx()? },
            "selfdestruct" => RSVD::SelfDestruct { target: nx()? },
            "unwritten" => RSVD::UnwrittenStorageValue { key: nx()? },
            "sload" => RSVD::SLoad { key: nx()?, value: nx()? },
            "slot" => RSVD::StorageSlot { key: nx()? },
            "swrite" => RSVD::StorageWrite { key: nx()?, value: nx()? },
            "concat" => RSVD::Concat { values: it.by_ref().collect() },
            "mapix" => RSVD::MappingIndex {
                slot:       nx()?,
                key:        nx()?,
                projection: meta
                    .and_then(|m| m.get("proj"))
                    .and_then(J::as_u64)
                    .map(|p| p as usize),
            },
            "dynix" => RSVD::DynamicArrayIndex { slot: nx()?, index: nx()? },
            "subword" => RSVD::SubWord {
                value:  nx()?,
                offset: meta.and_then(|m| m.get("off")).and_then(J::as_u64).unwrap_or(0) as usize,
                size:   meta.and_then(|m| m.get("size")).and_then(J::as_u64).unwrap_or(0) as usize,
            },
            "shifted" => RSVD::Shifted {
                offset: meta.and_then(|m| m.get("off")).and_then(J::as_u64).unwrap_or(0) as usize,
                value:  nx()?,
            },
            "packed" => {
                let mut elements = Vec::new();
                for e in &arr[1..] {
                    if e.is_object() {
                        continue;
                    }
                    let t = e.as_array().ok_or("packed element")?;
                    let off = t.first().and_then(J::as_u64).ok_or("packed off")? as usize;
                    let size = t.get(1).and_then(J::as_u64).ok_or("packed size")? as usize;
                    let value = self.parse(t.get(2).ok_or("packed value")?)?;
                    elements.push(PackedSpan::new(off, size, value));
                }
                RSVD::Packed { elements }
            }
            other => return Err(format!("unknown tag {other}")),
        };
        Ok(RSV::new(ip, data, Provenance::Synthetic, self.limit))
    }
}
