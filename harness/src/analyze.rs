//! The `analyze` request: drives the real pipeline (one-call or staged) and reports what was observed.

use std::{
    cell::{Cell, RefCell},
    collections::BTreeSet,
    rc::Rc,
    sync::{Arc, RwLock},
};

use serde_json::{json, Value as J};
use storage_layout_extractor as sle;
use storage_layout_extractor::{
    disassembly::InstructionStream,
    error,
    extractor::{
        chain::{version::EthereumVersion, Chain},
        contract::Contract,
    },
    opcode::control::JumpDest,
    tc::{
        self,
        lift::{
            dynamic_array_access::DynamicArrayIndex,
            mapping_index::MappingIndex,
            mapping_offset::MappingOffset,
            mul_shifted::MulShiftedValue,
            packed_encoding::PackedEncoding,
            proxy_slots::ProxySlots,
            recognise_hashed_slots::StorageSlotHashes,
            storage_slots::StorageSlots,
            sub_word::SubWordValue,
            LiftingPasses,
        },
        TypeChecker,
    },
    vm::{
        self,
        state::VMState,
        value::{known::KnownWord, Provenance, RuntimeBoxedVal, RSV, RSVD},
        ExecutionResult,
        VM,
    },
    watchdog::{DynWatchdog, LazyWatchdog},
    StorageLayout,
};

use crate::{
    mon::{DriverMonitor, DriverWatchdog, FoldMode, MonState, RcState},
    tree,
};

pub fn errors_json(e: &error::Errors) -> J {
    J::Array(
        e.payloads()
            .iter()
            .map(|le| {
                let dbg = format!("{:?}", le.payload);
                let (stage, inner) = match dbg.split_once('(') {
                    Some((s, rest)) => (s.to_string(), rest.to_string()),
                    None => (dbg.clone(), String::new()),
                };
                let kind: String = inner
                    .chars()
                    .take_while(|c| c.is_alphanumeric() || *c == '_')
                    .collect();
                json!({"stage": stage, "kind": kind, "location": le.location, "text": format!("{}", le.payload)})
            })
            .collect(),
    )
}

fn exec_errors_json(e: &error::execution::Errors) -> J {
    J::Array(
        e.payloads()
            .iter()
            .map(|le| {
                let dbg = format!("{:?}", le.payload);
                let kind: String = dbg.chars().take_while(|c| c.is_alphanumeric() || *c == '_').collect();
                json!({"stage": "Execution", "kind": kind, "location": le.location, "text": format!("{}", le.payload)})
            })
            .collect(),
    )
}

pub fn layout_json(l: &StorageLayout) -> J {
    serde_json::to_value(l.slots()).unwrap_or(J::Null)
}

fn vm_config(j: Option<&J>) -> vm::Config {
    let mut c = vm::Config::default();
    if let Some(j) = j {
        let g = |k: &str| j.get(k).and_then(J::as_u64).map(|v| v as usize);
        if let Some(v) = g("gas") {
            c = c.with_gas_limit(v);
        }
        if let Some(v) = g("iters") {
            c = c.with_max_iterations_per_opcode(v);
        }
        if let Some(v) = g("forks") {
            c = c.with_max_forks_per_fork_target(v);
        }
        if let Some(v) = g("vsize") {
            c = c.with_value_size_limit(v);
        }
        if let Some(v) = g("memlimit") {
            c = c.with_memory_max_bytes(v);
        }
        if let Some(v) = j.get("permissive").and_then(J::as_bool) {
            c = c.with_permissive_errors(v);
        }
    }
    c
}

/// The type-checker configuration. By default this is `tc::Config::default()`, i.e. exactly what ships. With
/// `small_hashes` (used only under Miri, where 10 000 keccaks per request are unaffordable) the same pass list is
/// built by hand with a reduced hash table.
fn tc_config(small_hashes: Option<usize>) -> tc::Config {
    let mut config = tc_config_shipped(small_hashes);
    if let Some((first, every)) = FAILING_LIFT.with(std::cell::Cell::get) {
        config.lifting_passes.add(FailingLift { first, every, seen: 0 });
    }
    config
}

thread_local! {
    /// `failing_lift` of the request being served: (index of the first value to reject, period).
    static FAILING_LIFT: std::cell::Cell<Option<(usize, usize)>> = const { std::cell::Cell::new(None) };
}

/// A user-defined lifting pass (the documented extension point `LiftingPasses::add`) that rejects every `every`-th
/// value from the `first` one on and passes the others through untouched: the only way to make the lifting stage
/// buffer errors while it still has values to go through.
#[derive(Debug)]
struct FailingLift {
    first: usize,
    every: usize,
    seen:  usize,
}

impl tc::lift::Lift for FailingLift {
    fn run(
        &mut self,
        value: RuntimeBoxedVal,
        _state: &tc::state::TypeCheckerState,
    ) -> storage_layout_extractor::error::unification::Result<RuntimeBoxedVal> {
        let n = self.seen;
        self.seen += 1;
        if n >= self.first && (n - self.first) % self.every.max(1) == 0 {
            let mut errors = storage_layout_extractor::error::unification::Errors::new();
            errors.add_located(
                value.instruction_pointer(),
                storage_layout_extractor::error::unification::Error::OverSizedNumber { value: 1, width: 0 },
            );
            return Err(errors);
        }
        Ok(value)
    }
}

fn tc_config_shipped(small_hashes: Option<usize>) -> tc::Config {
    match small_hashes {
        None => tc::Config::default(),
        Some(n) => {
            let table = Arc::new(RwLock::new(StorageSlotHashes::make_hashes(n)));
            let passes = LiftingPasses::new(vec![
                StorageSlotHashes::new_with_hashes(table) as Box<dyn tc::lift::Lift>,
                ProxySlots::new(),
                MappingIndex::new(),
                SubWordValue::new(),
                MulShiftedValue::new(),
                PackedEncoding::new(),
                DynamicArrayIndex::new(),
                StorageSlots::new(),
                MappingOffset::new(),
            ]);
            tc::Config {
                lifting_passes:  passes,
                inference_rules: tc::rule::InferenceRules::default(),
            }
        }
    }
}

fn walk_consts(v: &RuntimeBoxedVal, out: &mut BTreeSet<String>) {
    if let RSVD::KnownData { value } = v.data() {
        out.insert(tree::hex_word(value));
    }
    for c in v.children() {
        walk_consts(&c, out);
    }
}

struct StorageObs {
    nodes:        u64,
    key_consts:   BTreeSet<String>,
    value_consts: BTreeSet<String>,
    literal_keys: BTreeSet<String>,
    key_trees:    Vec<J>,
}

fn walk_storage(v: &RuntimeBoxedVal, obs: &mut StorageObs, want_trees: bool) {
    let key = match v.data() {
        RSVD::SLoad { key, value } => {
            walk_consts(value, &mut obs.value_consts);
            Some(key)
        }
        RSVD::StorageWrite { key, value } => {
            walk_consts(value, &mut obs.value_consts);
            Some(key)
        }
        RSVD::UnwrittenStorageValue { key } => Some(key),
        _ => None,
    };
    if let Some(key) = key {
        obs.nodes += 1;
        walk_consts(key, &mut obs.key_consts);
        if let RSVD::KnownData { value } = key.data() {
            obs.literal_keys.insert(tree::hex_word(value));
        }
        if want_trees && obs.key_trees.len() < 500 {
            obs.key_trees.push(tree::ser(key, false));
        }
    }
    for c in v.children() {
        walk_storage(&c, obs, want_trees);
    }
}

/// Walks `v` checking `size() == 1 + sum(children counts)` at every node; returns the true node count.
fn check_sizes(v: &RuntimeBoxedVal, mismatches: &mut Vec<J>, nodes: &mut u64) -> usize {
    let mut n = 1usize;
    for c in v.children() {
        n += check_sizes(&c, mismatches, nodes);
    }
    *nodes += 1;
    if v.size() != n && mismatches.len() < 20 {
        mismatches.push(json!({"kind": kind_of(v), "reported": v.size(), "actual": n, "ip": v.instruction_pointer()}));
    }
    n
}

fn kind_of(v: &RuntimeBoxedVal) -> String {
    let d = format!("{:?}", v.data());
    d.chars().take_while(|c| c.is_alphanumeric() || *c == '_').collect()
}

fn sizes_obs(result: &ExecutionResult, limit: usize, small_hashes: Option<usize>) -> J {
    // the extra lift below must not show up in the monitored event stream
    let saved_monitor = sle::verif::uninstall();
    let out = sizes_obs_inner(result, limit, small_hashes);
    if let Some(m) = saved_monitor {
        sle::verif::install(m);
    }
    out
}

fn sizes_obs_inner(result: &ExecutionResult, limit: usize, small_hashes: Option<usize>) -> J {
    let mut mismatches: Vec<J> = Vec::new();
    let mut nodes = 0u64;
    let mut values = 0u64;
    let mut over: Vec<J> = Vec::new();
    let mut max_by_kind: std::collections::BTreeMap<String, usize> = std::collections::BTreeMap::new();
    let mut over_count = 0u64;
    let mut produced = |v: &RuntimeBoxedVal, whence: &str, mismatches: &mut Vec<J>, nodes: &mut u64| {
        let n = check_sizes(v, mismatches, nodes);
        let k = kind_of(v);
        let e = max_by_kind.entry(k.clone()).or_insert(0);
        if n > *e {
            *e = n;
        }
        if n > limit {
            over_count += 1;
            if over.len() < 20 {
                over.push(json!({"kind": k, "count": n, "reported": v.size(), "where": whence, "ip": v.instruction_pointer()}));
            }
        }
    };
    for st in &result.states {
        for d in 0..st.stack().depth() {
            if let Ok(v) = st.stack().read(d as u32) {
                values += 1;
                produced(v, "stack", &mut mismatches, &mut nodes);
            }
        }
        for v in st.memory().clone().all_values() {
            values += 1;
            produced(&v, "memory", &mut mismatches, &mut nodes);
        }
        for v in st.storage().all_values() {
            values += 1;
            produced(&v, "storage", &mut mismatches, &mut nodes);
        }
        for v in st.recorded_values() {
            values += 1;
            produced(v, "recorded", &mut mismatches, &mut nodes);
        }
        for v in st.logged_values() {
            values += 1;
            produced(v, "logged", &mut mismatches, &mut nodes);
        }
    }
    // All exported values (includes the StorageWrite wrappers): size == count, also after folding.
    let all = result.clone().all_values();
    let mut fold_mismatches: Vec<J> = Vec::new();
    let mut folded_nodes = 0u64;
    for v in &all {
        check_sizes(v, &mut mismatches, &mut nodes);
        let f = v.constant_fold();
        check_sizes(&f, &mut fold_mismatches, &mut folded_nodes);
    }
    // And after lifting.
    let mut lift_mismatches: Vec<J> = Vec::new();
    let mut lifted_nodes = 0u64;
    let mut lift_err = J::Null;
    let mut tc = TypeChecker::new(tc_config(small_hashes), LazyWatchdog.in_rc());
    match tc.lift(result.clone()) {
        Ok(vals) => {
            for v in &vals {
                check_sizes(v, &mut lift_mismatches, &mut lifted_nodes);
            }
        }
        Err(e) => lift_err = json!(format!("{e}")),
    }
    json!({
        "limit": limit, "values": values, "nodes": nodes, "mismatches": mismatches,
        "over_limit": over, "over_limit_count": over_count,
        "max_by_kind": max_by_kind,
        "exported": all.len(), "fold_mismatches": fold_mismatches, "folded_nodes": folded_nodes,
        "lift_mismatches": lift_mismatches, "lifted_nodes": lifted_nodes, "lift_error": lift_err,
    })
}

fn states_obs(result_states: &[VMState], code_len: usize, mem_offsets: &[J], annotate: bool, cap: usize) -> J {
    let mut out = Vec::new();
    for st in result_states.iter().take(cap) {
        let mut visited = Vec::new();
        for ip in 0..code_len as u32 {
            if let Ok(c) = st.visited_instructions().visit_count(ip) {
                if c > 0 {
                    visited.push(json!([ip, c]));
                }
            }
        }
        let mut stack = Vec::new();
        for d in 0..st.stack().depth() {
            if let Ok(v) = st.stack().read(d as u32) {
                stack.push(tree::ser(v, annotate));
            }
        }
        let mut mem = Vec::new();
        let mut memory = st.memory().clone();
        for off in mem_offsets {
            if let Some(s) = off.as_str() {
                if let Ok(w) = tree::parse_word(s) {
                    let key = RSV::new_known_value(0, w, Provenance::Synthetic, None);
                    let v = memory.load(&key);
                    mem.push(json!([s, tree::ser(&v, annotate)]));
                }
            }
        }
        let mut storage = Vec::new();
        for key in st.storage().keys() {
            let gens = st.storage().generations(key).unwrap_or_default();
            storage.push(json!([
                tree::ser(key, annotate),
                gens.iter().map(|g| tree::ser(g, annotate)).collect::<Vec<_>>()
            ]));
        }
        out.push(json!({
            "fork_point": st.fork_point(),
            "visited": visited,
            "stack": stack,
            "mem": mem,
            "storage": storage,
            "recorded": st.recorded_values().len(),
            "logged": st.logged_values().len(),
        }));
    }
    json!({"count": result_states.len(), "states": out})
}

fn visit_summary(states: &[VMState], code_len: usize) -> J {
    let mut max = 0usize;
    let mut at = 0u32;
    let mut union: Vec<u32> = Vec::new();
    let mut seen = vec![false; code_len];
    for st in states {
        for ip in 0..code_len as u32 {
            if let Ok(c) = st.visited_instructions().visit_count(ip) {
                if c > max {
                    max = c;
                    at = ip;
                }
                if c > 0 && !seen[ip as usize] {
                    seen[ip as usize] = true;
                    union.push(ip);
                }
            }
        }
    }
    union.sort_unstable();
    json!({"max_visit_count": max, "max_visit_at": at, "visited_union": union, "states": states.len()})
}

pub fn handle(req: &J) -> J {
    let code_hex = req.get("code").and_then(J::as_str).unwrap_or("");
    let code = match hex::decode(code_hex.strip_prefix("0x").unwrap_or(code_hex)) {
        Ok(c) => c,
        Err(e) => return json!({"class": "harness_error", "msg": format!("bad hex: {e}")}),
    };
    let cfg = vm_config(req.get("cfg"));
    let stage = req.get("stage").and_then(J::as_str).unwrap_or("analyze").to_string();
    let observe: Vec<String> = req
        .get("observe")
        .and_then(J::as_array)
        .map(|a| a.iter().filter_map(|x| x.as_str().map(String::from)).collect())
        .unwrap_or_default();
    let wants = |k: &str| observe.iter().any(|o| o == k);
    let small_hashes = req.get("small_hashes").and_then(J::as_u64).map(|n| n as usize);
    FAILING_LIFT.with(|c| {
        c.set(req.get("failing_lift").map(|f| {
            (
                f.get("first").and_then(J::as_u64).unwrap_or(0) as usize,
                f.get("every").and_then(J::as_u64).unwrap_or(1) as usize,
            )
        }))
    });
    let annotate = req.get("annotate").and_then(J::as_bool).unwrap_or(false);
    let mem_offsets: Vec<J> = req.get("mem_offsets").and_then(J::as_array).cloned().unwrap_or_default();
    let state_cap = req.get("state_cap").and_then(J::as_u64).unwrap_or(64) as usize;

    // Monitor + watchdog
    let shared = Rc::new(RefCell::new(MonState::new()));
    {
        let mut s = shared.borrow_mut();
        s.want_trace = wants("trace");
        s.want_executed = wants("executed");
        s.lim_gas = cfg.gas_limit;
        if wants("forks") {
            // JUMPIs whose target is pushed by the instruction right before them and is a JUMPDEST, from our own scan
            // of the bytes (a JUMPI is not a JUMPDEST, so it can only be reached from that PUSH)
            s.want_forks = true;
            s.lim_iters = cfg.maximum_iterations_per_opcode;
            s.lim_forks = cfg.maximum_forks_per_fork_target;
            let n = code.len();
            let mut is_start = vec![false; n];
            let mut i = 0;
            let mut prev: Option<(usize, Option<u128>)> = None;
            let mut cands: Vec<(u32, u128)> = Vec::new();
            while i < n {
                is_start[i] = true;
                let b = code[i];
                if (0x60..=0x7f).contains(&b) {
                    let w = (b - 0x5f) as usize;
                    if i + w < n {
                        let mut v: u128 = 0;
                        let mut big = false;
                        for &x in &code[i + 1..=i + w] {
                            if v >> 120 != 0 {
                                big = true;
                            }
                            v = (v << 8) | u128::from(x);
                        }
                        prev = Some((i, if big { None } else { Some(v) }));
                        i += w + 1;
                        continue;
                    }
                    break;
                }
                if b == 0x5f {
                    prev = Some((i, Some(0)));
                } else {
                    if b == 0x57 {
                        if let Some((_, Some(t))) = prev {
                            cands.push((i as u32, t));
                        }
                    }
                    prev = None;
                }
                i += 1;
            }
            for (ip, t) in cands {
                if t < n as u128 && is_start[t as usize] && code[t as usize] == 0x5b {
                    s.jumpi_target.insert(ip, t as u32);
                }
            }
        }
        s.want_folds = wants("class_folds");
        // the declared minimum gas of the instruction at each offset, read from our own disassembly of the code: the
        // monitor adds these up along every path, independently of the VM's gas counter
        if let Ok(stream) = sle::disassembly::InstructionStream::try_from(code.as_slice()) {
            if let Ok(thread) = stream.new_thread(0) {
                let mut i = 0u32;
                while let Some(op) = thread.instruction(i) {
                    s.cost_at.push(op.min_gas_cost());
                    i += 1;
                }
            }
        }
        if let Some(cap) = req.get("trace_cap").and_then(J::as_u64) {
            s.trace_cap = cap as usize;
        }
        if let Some(f) = req.get("fold") {
            s.fold_mode = match f.get("mode").and_then(J::as_str).unwrap_or("natural") {
                "sorted" => FoldMode::Sorted,
                "reversed" => FoldMode::Reversed,
                "shuffle" => FoldMode::Shuffle,
                _ => FoldMode::Natural,
            };
            s.fold_seed = f.get("seed").and_then(J::as_u64).unwrap_or(0);
        }
    }
    let use_monitor = req.get("monitor").and_then(J::as_bool).unwrap_or(true);
    if use_monitor {
        sle::verif::install(Box::new(DriverMonitor(shared.clone())));
    }
    let watchdog: DynWatchdog = match req.get("wd") {
        Some(w) if !w.is_null() => {
            let every = w.get("every").and_then(J::as_u64).unwrap_or(100) as usize;
            let stop_at = w.get("stop_at").and_then(J::as_u64);
            shared.borrow_mut().stop_at = stop_at;
            Rc::new(DriverWatchdog {
                every,
                stop_at,
                polls: Cell::new(0),
                shared: RcState(shared.clone()),
            })
        }
        _ => LazyWatchdog.in_rc(),
    };

    let contract = Contract::new(
        code.clone(),
        Chain::Ethereum {
            version: EthereumVersion::Shanghai,
        },
    );

    let mut resp = serde_json::Map::new();
    let mut reached = "none";
    let outcome: Result<Option<StorageLayout>, error::Errors> = (|| {
        if req.get("direct_vm").and_then(J::as_bool).unwrap_or(false) {
            // Drive the VM through its own public API so that the jump-target counters can be read afterwards.
            let stream = InstructionStream::try_from(code.as_slice())?;
            let mut machine = VM::new(stream, cfg.clone(), watchdog.clone())?;
            let run = machine.execute();
            let mut cond = Vec::new();
            let mut jumpdests = 0u64;
            let thread = machine.instructions().new_thread(0)?;
            for ip in 0..code.len() as u32 {
                if thread.instruction(ip).is_some_and(|op| op.as_any().is::<JumpDest>()) {
                    jumpdests += 1;
                    if let Ok(c) = machine.jump_targets().cond_jump_count(ip) {
                        if c > 0 {
                            cond.push(json!([ip, c]));
                        }
                    }
                }
            }
            resp.insert("cond_jump_counts".into(), J::Array(cond));
            resp.insert("jumpdests".into(), json!(jumpdests));
            resp.insert("remaining_threads".into(), json!(machine.remaining_thread_count()));
            resp.insert("visits".into(), visit_summary(machine.stored_states(), code.len()));
            if wants("states") {
                resp.insert(
                    "states".into(),
                    states_obs(machine.stored_states(), code.len(), &mem_offsets, annotate, state_cap),
                );
            }
            let result = machine.consume();
            if wants("sizes") {
                resp.insert("sizes".into(), sizes_obs(&result, cfg.value_size_limit, small_hashes));
            }
            resp.insert("vm_errors".into(), exec_errors_json(&result.errors));
            reached = "execute";
            run.map_err(error::Errors::from)?;
            return Ok(None);
        }
        if stage == "analyze" {
            let layout = sle::new(contract, cfg.clone(), tc_config(small_hashes), watchdog.clone()).analyze()?;
            reached = "analyze";
            return Ok(Some(layout));
        }
        let ex = sle::new(contract, cfg.clone(), tc_config(small_hashes), watchdog.clone());
        let ex = ex.disassemble()?;
        reached = "disassemble";
        if stage == "disassemble" {
            return Ok(None);
        }
        let ex = ex.prepare_vm()?;
        reached = "prepare_vm";
        if stage == "prepare_vm" {
            return Ok(None);
        }
        let ex = ex.execute()?;
        reached = "execute";
        {
            let result = &ex.state().execution_result;
            resp.insert("visits".into(), visit_summary(&result.states, code.len()));
            if wants("states") {
                resp.insert(
                    "states".into(),
                    states_obs(&result.states, code.len(), &mem_offsets, annotate, state_cap),
                );
            }
            if wants("storage_keys") || wants("key_trees") {
                let mut obs = StorageObs {
                    nodes:        0,
                    key_consts:   BTreeSet::new(),
                    value_consts: BTreeSet::new(),
                    literal_keys: BTreeSet::new(),
                    key_trees:    Vec::new(),
                };
                for v in result.clone().all_values() {
                    walk_storage(&v, &mut obs, wants("key_trees"));
                }
                // the literal keys as the VM states themselves hold them (every SLOAD / SSTORE leaves an entry under
                // its key), independent of how the values are exported afterwards
                let mut state_keys: BTreeSet<String> = BTreeSet::new();
                for st in &result.states {
                    for key in st.storage().keys() {
                        if let RSVD::KnownData { value } = key.data() {
                            state_keys.insert(tree::hex_word(value));
                        }
                    }
                }
                resp.insert(
                    "storage_keys".into(),
                    json!({"nodes": obs.nodes, "key_consts": obs.key_consts, "value_consts": obs.value_consts,
                           "literal_keys": obs.literal_keys, "key_trees": obs.key_trees, "state_literal_keys": state_keys}),
                );
            }
            if wants("sizes") {
                resp.insert("sizes".into(), sizes_obs(result, cfg.value_size_limit, small_hashes));
            }
        }
        if stage == "execute" {
            return Ok(None);
        }
        let ex = ex.prepare_unifier();
        reached = "prepare_unifier";
        if stage == "prepare_unifier" {
            return Ok(None);
        }
        let ex = ex.infer()?;
        reached = "infer";
        if wants("tc_stats") {
            resp.insert(
                "tc_stats".into(),
                json!({"values": ex.engine().values_under_analysis().len(), "type_vars": ex.engine().state().tyvar_count()}),
            );
        }
        Ok(Some(ex.layout().clone()))
    })();

    if use_monitor {
        sle::verif::uninstall();
    }

    match outcome {
        Ok(layout) => {
            resp.insert("class".into(), json!("ok"));
            if let Some(l) = layout {
                resp.insert("layout".into(), layout_json(&l));
            }
        }
        Err(e) => {
            resp.insert("class".into(), json!("err"));
            resp.insert("errors".into(), errors_json(&e));
        }
    }
    resp.insert("reached".into(), json!(reached));
    let s = shared.borrow();
    resp.insert("mon".into(), s.summary());
    if wants("trace") {
        resp.insert("trace".into(), json!(s.trace));
        resp.insert("trace_dropped".into(), json!(s.trace_dropped));
    }
    if wants("class_folds") {
        resp.insert("class_folds".into(), J::Array(s.folds.clone()));
        resp.insert("class_folds_tail".into(), J::Array(s.folds_tail.iter().cloned().collect()));
    }
    let _ = KnownWord::zero();
    J::Object(resp)
}
