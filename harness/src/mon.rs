//! The in-driver monitor: receives hook events and watchdog polls, keeps counters, runs the online checks that need
//! every event (visit limits, gas, poll gaps) and optionally records the raw trace.

use std::{
    cell::{Cell, RefCell},
    collections::BTreeMap,
    rc::Rc,
};

use serde_json::{json, Value as J};
use storage_layout_extractor::{
    verif::{Event, Monitor},
    watchdog::Watchdog,
};

#[derive(Default)]
pub struct LoopStat {
    pub instances:  u64,
    pub iterations: u64,
    pub polls:      u64,
    pub gap:        u64,
    pub max_gap:    u64,
}

#[derive(Clone, Copy, PartialEq, Eq)]
pub enum FoldMode {
    Natural,
    Sorted,
    Reversed,
    Shuffle,
}

pub struct MonState {
    pub steps:           u64,
    pub max_visits:      usize,
    pub max_visits_at:   u32,
    pub max_gas_before:  usize,
    pub forks_to:        BTreeMap<u32, u64>,
    pub forks:           u64,
    pub retires:         u64,
    pub retire_reasons:  [u64; 3],
    pub oog_at:          Vec<u32>,
    pub retire_gas:      Vec<(u32, usize)>,
    pub thread_base:     Vec<usize>,
    pub thread_first:    Vec<Option<usize>>,
    pub thread_acc:      Vec<usize>,
    pub max_gas_accounted: usize,
    pub cost_at:         Vec<usize>,
    pub want_executed:   bool,
    // fork-decision conformance (enabled by `observe: ["forks"]`)
    pub want_forks:      bool,
    pub lim_iters:       usize,
    pub lim_forks:       usize,
    pub jumpi_target:    std::collections::HashMap<u32, u32>,
    pub thread_visits:   Vec<std::collections::HashMap<u32, usize>>,
    pub forks_done:      std::collections::HashMap<u32, usize>,
    pub pending_jumpi:   Option<(u32, u32, bool, bool)>,
    pub fork_decisions:  u64,
    pub fork_refusals_expected: u64,
    pub fork_mismatches: Vec<(u32, u32, bool, bool, usize, usize)>,
    pub culled:          u64,
    pub culled_ids:      std::collections::HashMap<String, u32>,
    pub culled_dups:     Vec<(String, u32, u32)>,
    pub culled_under:    Vec<(u32, usize, usize)>,
    pub executed:        std::collections::BTreeSet<u32>,
    pub thread_opgas:    Vec<usize>,
    pub thread_pending:  Vec<usize>,
    pub max_opgas_before: usize,
    pub max_opgas_at:    u32,
    pub lim_gas:         usize,
    pub thread_last_ip:  Vec<u32>,
    pub thread_over:     Vec<bool>,
    pub oog_expected:    Vec<u32>,
    pub stop_site:       Option<&'static str>,
    pub stop_instance_alive: bool,
    pub polls_after_stop_same_instance: u64,
    pub op_errors:       Vec<(u32, String, bool)>,
    pub stored_errors:   Vec<(u32, String)>,
    pub loops:           BTreeMap<&'static str, LoopStat>,
    pub last_site:       Option<&'static str>,
    pub polls:           u64,
    pub stop_at:         Option<u64>,
    pub polls_after_stop: u64,
    pub rounds:          Vec<(usize, bool)>,
    pub round_count:     u64,
    pub trace:           Vec<String>,
    pub trace_cap:       usize,
    pub trace_dropped:   u64,
    pub want_trace:      bool,
    pub fold_mode:       FoldMode,
    pub fold_seed:       u64,
    pub fold_calls:      u64,
    pub folds_multi:     u64,
    pub want_folds:      bool,
    pub folds:           Vec<J>,
    pub folds_tail:      std::collections::VecDeque<J>,
    // the simulated FIFO queue of threads: index of the running thread and number of threads ever created
    pub thread_now:      u64,
    pub threads_created: u64,
}

/// Observable progress of the request being served: every watchdog poll and every hook event bumps it. The driver's main
/// thread uses it to tell a computation that is *spinning without reaching a poll or a hook* from one that is merely slow.
pub static PROGRESS: std::sync::atomic::AtomicU64 = std::sync::atomic::AtomicU64::new(0);

impl MonState {
    pub fn new() -> Self {
        Self {
            steps: 0,
            max_visits: 0,
            max_visits_at: 0,
            max_gas_before: 0,
            forks_to: BTreeMap::new(),
            forks: 0,
            retires: 0,
            retire_reasons: [0; 3],
            oog_at: Vec::new(),
            retire_gas: Vec::new(),
            thread_base: vec![0],
            thread_first: vec![None],
            thread_acc: vec![0],
            max_gas_accounted: 0,
            cost_at: Vec::new(),
            want_executed: false,
            want_forks: false,
            lim_iters: 0,
            lim_forks: 0,
            jumpi_target: std::collections::HashMap::new(),
            thread_visits: vec![std::collections::HashMap::new()],
            forks_done: std::collections::HashMap::new(),
            pending_jumpi: None,
            fork_decisions: 0,
            fork_refusals_expected: 0,
            fork_mismatches: Vec::new(),
            culled: 0,
            culled_ids: std::collections::HashMap::new(),
            culled_dups: Vec::new(),
            culled_under: Vec::new(),
            executed: std::collections::BTreeSet::new(),
            thread_opgas: vec![0],
            thread_pending: vec![0],
            max_opgas_before: 0,
            max_opgas_at: 0,
            lim_gas: usize::MAX,
            thread_last_ip: vec![0],
            thread_over: vec![false],
            oog_expected: Vec::new(),
            stop_site: None,
            stop_instance_alive: false,
            polls_after_stop_same_instance: 0,
            op_errors: Vec::new(),
            stored_errors: Vec::new(),
            loops: BTreeMap::new(),
            last_site: None,
            polls: 0,
            stop_at: None,
            polls_after_stop: 0,
            rounds: Vec::new(),
            round_count: 0,
            trace: Vec::new(),
            trace_cap: 200_000,
            trace_dropped: 0,
            want_trace: false,
            fold_mode: FoldMode::Natural,
            fold_seed: 0,
            fold_calls: 0,
            folds_multi: 0,
            want_folds: false,
            folds: Vec::new(),
            folds_tail: std::collections::VecDeque::new(),
            thread_now: 0,
            threads_created: 1,
        }
    }

    fn tr(&mut self, s: impl FnOnce() -> String) {
        if self.want_trace {
            if self.trace.len() < self.trace_cap {
                self.trace.push(s());
            } else {
                self.trace_dropped += 1;
            }
        }
    }

    pub fn on_poll(&mut self) {
        PROGRESS.fetch_add(1, std::sync::atomic::Ordering::Relaxed);
        let n = self.polls;
        self.polls += 1;
        if let Some(k) = self.stop_at {
            if n == k {
                self.stop_site = self.last_site;
                self.stop_instance_alive = true;
            }
            if n > k {
                self.polls_after_stop += 1;
                if self.stop_instance_alive && self.stop_site == self.last_site {
                    // the very loop instance that was told to stop is polling again
                    self.polls_after_stop_same_instance += 1;
                }
            }
        }
        if let Some(site) = self.last_site {
            let st = self.loops.entry(site).or_default();
            st.polls += 1;
            st.gap = 0;
        }
        self.tr(|| "P".to_string());
    }

    pub fn summary(&self) -> J {
        let loops: serde_json::Map<String, J> = self
            .loops
            .iter()
            .map(|(k, v)| {
                (
                    (*k).to_string(),
                    json!({"instances": v.instances, "iterations": v.iterations, "polls": v.polls, "max_gap": v.max_gap}),
                )
            })
            .collect();
        json!({
            "steps": self.steps,
            "max_visits": self.max_visits,
            "max_visits_at": self.max_visits_at,
            "max_gas_before": self.max_gas_before,
            "forks": self.forks,
            "forks_to": self.forks_to.iter().map(|(k, v)| json!([k, v])).collect::<Vec<_>>(),
            "threads_created": self.threads_created,
            "retires": self.retires,
            "retire_at_limit": self.retire_reasons[0],
            "retire_out_of_gas": self.retire_reasons[1],
            "retire_killed": self.retire_reasons[2],
            "oog_at": self.oog_at,
            "op_errors": self.op_errors.iter().map(|(ip, e, r)| json!([ip, e, r])).collect::<Vec<_>>(),
            "stored_errors": self.stored_errors.iter().map(|(ip, e)| json!([ip, e])).collect::<Vec<_>>(),
            "loops": loops,
            "polls": self.polls,
            "polls_after_stop": self.polls_after_stop,
            "polls_after_stop_same_instance": self.polls_after_stop_same_instance,
            "stop_site": self.stop_site,
            "max_gas_accounted": self.max_gas_accounted,
            "executed_ips": if self.want_executed { json!(self.executed.iter().collect::<Vec<_>>()) } else { J::Null },
            "fork_decisions": self.fork_decisions,
            "fork_refusals_expected": self.fork_refusals_expected,
            "fork_mismatches": self.fork_mismatches.iter().map(|(ip, t, e, a, v, g)| json!({"ip": ip, "target": t, "expected": e, "actual": a, "thread_visits_of_target": v, "forks_to_target": g})).collect::<Vec<_>>(),
            "culled": self.culled,
            "culled_dups": self.culled_dups.iter().map(|(id, a, b)| json!([id, a, b])).collect::<Vec<_>>(),
            "culled_under": self.culled_under.iter().map(|(ip, n, l)| json!([ip, n, l])).collect::<Vec<_>>(),
            "oog_expected": self.oog_expected,
            "max_opgas_before": self.max_opgas_before,
            "max_opgas_at": self.max_opgas_at,
            "retire_gas": self.retire_gas.iter().map(|(ip, g)| json!([ip, g])).collect::<Vec<_>>(),
            "round_count": self.round_count,
            "rounds": self.rounds.iter().map(|(t, p)| json!([t, p])).collect::<Vec<_>>(),
            "fold_calls": self.fold_calls,
            "folds_multi": self.folds_multi,
        })
    }
}

pub struct DriverMonitor(pub Rc<RefCell<MonState>>);

fn splitmix(x: &mut u64) -> u64 {
    *x = x.wrapping_add(0x9e37_79b9_7f4a_7c15);
    let mut z = *x;
    z = (z ^ (z >> 30)).wrapping_mul(0xbf58_476d_1ce4_e5b9);
    z = (z ^ (z >> 27)).wrapping_mul(0x94d0_49bb_1331_11eb);
    z ^ (z >> 31)
}

impl MonState {
    /// The JUMPI whose decision was pending has finished: did it fork exactly when the limits allowed it to?
    fn resolve_pending_jumpi(&mut self) {
        if let Some((ip, target, expected, actual)) = self.pending_jumpi.take() {
            self.fork_decisions += 1;
            if !expected {
                self.fork_refusals_expected += 1;
            }
            if expected != actual && self.fork_mismatches.len() < 20 {
                let ti = self.thread_now as usize;
                let v = self.thread_visits.get(ti).and_then(|m| m.get(&target)).copied().unwrap_or(0);
                let g = self.forks_done.get(&target).copied().unwrap_or(0);
                self.fork_mismatches.push((ip, target, expected, actual, v, g));
            }
        }
    }
}

impl Monitor for DriverMonitor {
    fn event(&mut self, event: Event) {
        PROGRESS.fetch_add(1, std::sync::atomic::Ordering::Relaxed);
        let mut s = self.0.borrow_mut();
        match event {
            Event::Step { ip, gas, visits } => {
                s.steps += 1;
                if s.want_forks {
                    s.resolve_pending_jumpi();
                    let ti = s.thread_now as usize;
                    while s.thread_visits.len() <= ti {
                        s.thread_visits.push(std::collections::HashMap::new());
                    }
                    *s.thread_visits[ti].entry(ip).or_insert(0) += 1;
                    if let Some(&target) = s.jumpi_target.get(&ip) {
                        let v = s.thread_visits[ti].get(&target).copied().unwrap_or(0);
                        let g = s.forks_done.get(&target).copied().unwrap_or(0);
                        let expected = v < s.lim_iters && g < s.lim_forks;
                        s.pending_jumpi = Some((ip, target, expected, false));
                    }
                }
                if s.want_executed {
                    s.executed.insert(ip);
                }
                if visits > s.max_visits {
                    s.max_visits = visits;
                    s.max_visits_at = ip;
                }
                if gas > s.max_gas_before {
                    s.max_gas_before = gas;
                }
                // independent gas accounting: what the thread inherited at its fork (by our own books) plus what
                // it has consumed since its first step
                let ti = s.thread_now as usize;
                if ti < s.thread_first.len() {
                    let first = *s.thread_first[ti].get_or_insert(gas);
                    let acc = s.thread_base[ti].saturating_add(gas.saturating_sub(first));
                    s.thread_acc[ti] = acc;
                    if acc > s.max_gas_accounted {
                        s.max_gas_accounted = acc;
                    }
                }
                // opcode-level accounting: the declared minimum cost of every instruction this path has executed
                // successfully before this one
                if ti < s.thread_opgas.len() {
                    let done = s.thread_opgas[ti].saturating_add(s.thread_pending[ti]);
                    s.thread_opgas[ti] = done;
                    s.thread_pending[ti] = s.cost_at.get(ip as usize).copied().unwrap_or(0);
                    if done > s.max_opgas_before {
                        s.max_opgas_before = done;
                        s.max_opgas_at = ip;
                    }
                    // the instruction executed just before this one took the path over the gas limit: the thread
                    // was due to be retired there, with a gas error located at that instruction
                    if done > s.lim_gas && !s.thread_over[ti] {
                        s.thread_over[ti] = true;
                        let at = s.thread_last_ip[ti];
                        if s.oog_expected.len() < 1000 {
                            s.oog_expected.push(at);
                        }
                    }
                    s.thread_last_ip[ti] = ip;
                }
                let t = s.thread_now;
                s.tr(|| format!("S{t}:{ip}:{gas}:{visits}"));
            }
            Event::OpError { ip, error, recorded } => {
                // a JUMPI that failed (e.g. for want of a condition) took no fork decision
                s.pending_jumpi = None;
                // a failed instruction is not charged (and ends its thread)
                let ti = s.thread_now as usize;
                if ti < s.thread_pending.len() {
                    s.thread_pending[ti] = 0;
                }
                s.tr(|| format!("E{ip}:{recorded}:{error}"));
                if s.op_errors.len() < 10_000 {
                    s.op_errors.push((ip, error, recorded));
                }
            }
            Event::StoredError { ip, error } => {
                s.tr(|| format!("X{ip}:{error}"));
                if s.stored_errors.len() < 10_000 {
                    s.stored_errors.push((ip, error));
                }
            }
            Event::Retire {
                ip,
                gas,
                at_limit,
                out_of_gas,
                killed,
            } => {
                if s.want_forks {
                    s.resolve_pending_jumpi();
                }
                s.retires += 1;
                if s.retire_gas.len() < 20_000 {
                    s.retire_gas.push((ip, gas));
                }
                if at_limit {
                    s.retire_reasons[0] += 1;
                }
                if out_of_gas {
                    s.retire_reasons[1] += 1;
                    if s.oog_at.len() < 10_000 {
                        s.oog_at.push(ip);
                    }
                }
                if killed {
                    s.retire_reasons[2] += 1;
                }
                let t = s.thread_now;
                s.tr(|| format!("R{t}:{ip}:{}{}{}", at_limit as u8, out_of_gas as u8, killed as u8));
                s.thread_now += 1;
            }
            Event::Fork { from, to } => {
                if s.want_forks {
                    if let Some((ip, target, expected, _)) = s.pending_jumpi {
                        if ip == from && target == to {
                            s.pending_jumpi = Some((ip, target, expected, true));
                        }
                    }
                    *s.forks_done.entry(to).or_insert(0) += 1;
                    // the new thread inherits the visit counts of the thread that forked it
                    let parent = s.thread_now as usize;
                    let inherited = s.thread_visits.get(parent).cloned().unwrap_or_default();
                    s.thread_visits.push(inherited);
                }
                s.forks += 1;
                s.threads_created += 1;
                let parent = s.thread_now as usize;
                let inherited = s.thread_acc.get(parent).copied().unwrap_or(0);
                s.thread_base.push(inherited);
                s.thread_first.push(None);
                s.thread_acc.push(inherited);
                // the fork happens while the JUMPI executes, i.e. before it is charged
                let op_inherited = s.thread_opgas.get(parent).copied().unwrap_or(0);
                s.thread_opgas.push(op_inherited);
                s.thread_pending.push(0);
                s.thread_last_ip.push(from);
                s.thread_over.push(false);
                *s.forks_to.entry(to).or_insert(0) += 1;
                s.tr(|| format!("F{from}:{to}"));
            }
            Event::LoopIter { site, index } => {
                s.last_site = Some(site);
                if index == 0 && s.stop_site == Some(site) {
                    s.stop_instance_alive = false;
                }
                let st = s.loops.entry(site).or_default();
                if index == 0 {
                    st.instances += 1;
                    st.gap = 0;
                }
                st.iterations += 1;
                st.gap += 1;
                if st.gap > st.max_gap {
                    st.max_gap = st.gap;
                }
                s.tr(|| format!("L{site}:{index}"));
            }
            Event::Culled { ip, id, nodes, limit } => {
                // every replacement must be a value nobody has seen before
                s.culled += 1;
                if nodes <= limit && s.culled_under.len() < 50 {
                    s.culled_under.push((ip, nodes, limit));
                }
                if let Some(first) = s.culled_ids.get(&id).copied() {
                    if s.culled_dups.len() < 50 {
                        s.culled_dups.push((id.clone(), first, ip));
                    }
                } else if s.culled_ids.len() < 2_000_000 {
                    s.culled_ids.insert(id.clone(), ip);
                }
                s.tr(|| format!("C{ip}:{nodes}:{limit}:{id}"));
            }
            Event::Round { type_vars, progress } => {
                s.round_count += 1;
                if s.rounds.len() < 4096 {
                    s.rounds.push((type_vars, progress));
                }
                s.tr(|| format!("U{type_vars}:{progress}"));
            }
        }
    }

    fn wants_class_fold(&self) -> bool {
        let s = self.0.borrow();
        s.fold_mode != FoldMode::Natural || s.want_folds
    }

    fn class_fold(&mut self, root: usize, evidence: &[String]) -> Option<Vec<usize>> {
        let mut s = self.0.borrow_mut();
        s.fold_calls += 1;
        if evidence.len() > 1 {
            s.folds_multi += 1;
        }
        let mut order: Vec<usize> = (0..evidence.len()).collect();
        let result = match s.fold_mode {
            FoldMode::Natural => None,
            FoldMode::Sorted | FoldMode::Reversed | FoldMode::Shuffle => {
                order.sort_by(|&a, &b| evidence[a].cmp(&evidence[b]));
                if s.fold_mode == FoldMode::Reversed {
                    order.reverse();
                }
                if s.fold_mode == FoldMode::Shuffle {
                    let mut st = s.fold_seed ^ (root as u64).wrapping_mul(0x1000_0001) ^ s.fold_calls.wrapping_mul(77);
                    for i in (1..order.len()).rev() {
                        let j = (splitmix(&mut st) % (i as u64 + 1)) as usize;
                        order.swap(i, j);
                    }
                }
                Some(order.clone())
            }
        };
        if s.want_folds && evidence.len() > 1 {
            // keep the first 600 and the most recent 600 multi-evidence folds
            let ev: Vec<&String> = order.iter().map(|&i| &evidence[i]).collect();
            let item = json!({"root": root, "evidence": ev, "round": s.round_count});
            if s.folds.len() < 600 {
                s.folds.push(item);
            } else {
                if s.folds_tail.len() >= 600 {
                    s.folds_tail.pop_front();
                }
                s.folds_tail.push_back(item);
            }
        }
        result
    }
}

#[derive(Debug)]
pub struct DriverWatchdog {
    pub every:   usize,
    pub stop_at: Option<u64>,
    pub polls:   Cell<u64>,
    pub shared:  RcState,
}

pub struct RcState(pub Rc<RefCell<MonState>>);
impl std::fmt::Debug for RcState {
    fn fmt(&self, f: &mut std::fmt::Formatter<'_>) -> std::fmt::Result {
        write!(f, "MonState")
    }
}

impl Watchdog for DriverWatchdog {
    fn should_stop(&self) -> bool {
        let n = self.polls.get();
        self.polls.set(n + 1);
        self.shared.0.borrow_mut().on_poll();
        self.stop_at.is_some_and(|k| n >= k)
    }

    fn poll_every(&self) -> usize {
        self.every
    }
}
