"""C15 - compatible evidence joins to its most specific type; contradictions conflict.

Monitor: judgement sets are generated from a hidden ground-truth typing by emitting *weakenings* of each class's true
type plus equalities between same-typed variables; the real unification runs on them (fresh state, real
register/infer/unify) and the resolved type of every class is compared with the join computed by an independent
lattice model (vlib/uf.py). The same sets with one contradictory judgement injected must resolve that class to a
conflict.
"""
import json

from vlib import common, uf

PROP = "C15"
PROFILES = ("rel",)


WIDTHS = [None, None, 1, 7, 8, 8, 9, 12, 32, 64, 68, 71, 160, 161, 248, 255, 256, 256]


def weakenings_of_word(rng, width, usage):
    """Words below (width, usage) in the lattice."""
    below = {"bytes": ["bytes"], "numeric": ["bytes", "numeric"], "unsigned": ["bytes", "numeric", "unsigned"],
             "signed": ["bytes", "numeric", "signed"], "address": ["bytes", "numeric", "unsigned", "address"],
             "bool": ["bytes", "bool"], "selector": ["bytes", "selector"], "function": ["bytes", "function"]}[usage]
    u = rng.choice(below)
    if u in uf.FIXED_WIDTH:
        # usually at its native width; sometimes with the width left unknown (constructible evidence that no inference
        # rule emits: TE::word(None, WordUse::Address)), which must not override a width known from elsewhere
        w = uf.FIXED_WIDTH[u] if (width == uf.FIXED_WIDTH[u] or rng.random() < 0.5) else None
        if width != uf.FIXED_WIDTH[u]:
            w = None if rng.random() < 0.5 else width
    else:
        w = width if rng.random() < 0.5 else None
    return ["word", w, u]


def gen(rng):
    """Returns (nvars, judgements, truth) where truth maps class representative -> info."""
    nclasses = rng.randint(1, 6)
    classes = []
    var = 0
    js = []
    # allocate variables: each class gets 1-3 members plus component variables
    for c in range(nclasses):
        members = list(range(var, var + rng.randint(1, 3)))
        var += len(members)
        k = rng.choice(["word", "word", "word", "map", "dyn", "fixed", "bytes"])
        info = {"members": members, "kind": k}
        if k == "fixed":
            info["length"] = "0x%x" % rng.choice([3, 3, 1, 5, (1 << 64) + 3, (1 << 128) + 5, (1 << 256) - 1])
        if k == "word":
            usage = rng.choice(uf.USAGES)
            info["usage"] = usage
            info["width"] = uf.FIXED_WIDTH.get(usage, rng.choice(WIDTHS))
            if usage in uf.FIXED_WIDTH and rng.random() < 0.15:
                # a sized usage observed at a width other than its native one (evidence never uses the native-width
                # constructor for this class)
                info["width"] = rng.choice([w for w in WIDTHS if w is not None and w != uf.FIXED_WIDTH[usage]])
        classes.append(info)
    # component variables are word classes of their own (single member)
    for info in classes:
        if info["kind"] in ("map", "dyn", "fixed"):
            ncomp = 2 if info["kind"] == "map" else 1
            info["components"] = []
            for _ in range(ncomp):
                # each judgement may name a *different* variable for the component; they must all end up unified
                info["components"].append([])
    for info in classes:
        members = info["members"]
        # equalities tying the members together (a spanning chain, random direction)
        for a, b in zip(members, members[1:]):
            js.append([a, ["eq", b]] if rng.random() < 0.5 else [b, ["eq", a]])
        emitted = []
        for _ in range(rng.randint(1, 5)):
            m = rng.choice(members)
            k = info["kind"]
            if k == "word":
                e = weakenings_of_word(rng, info["width"], info["usage"])
            elif k == "bytes":
                e = rng.choice(["bytes", "bytes", "any"])
            else:
                r = rng.random()
                if r < 0.25:
                    e = "any"
                elif r < 0.35 and k == "dyn":
                    # the slot of a dynamic array holds its length
                    e = ["word", None, rng.choice(["bytes", "numeric", "unsigned"])]
                else:
                    comps = []
                    for ci in range(len(info["components"])):
                        if info["components"][ci] and rng.random() < 0.35:
                            # re-use a component variable that an earlier judgement of this class already named
                            # (independently per position: same value variable with a new key variable, etc.)
                            cv = rng.choice(info["components"][ci])
                        else:
                            cv = var
                            var += 1
                            info["components"][ci].append(cv)
                        comps.append(cv)
                    if k == "map":
                        e = ["map", comps[0], comps[1]]
                    elif k == "dyn":
                        e = ["dyn", comps[0]]
                    else:
                        e = ["fixed", comps[0], info["length"]]
            if k in ("word", "bytes") and rng.random() < 0.1:
                e = "any"
            emitted.append(e)
            js.append([m, e])
        info["emitted"] = emitted
    # component variables get word evidence of one consistent type per component position
    for info in classes:
        for comp_vars in info.get("components", []):
            if not comp_vars:
                continue
            usage = rng.choice(["numeric", "unsigned", "address", "bool", "bytes"])
            width = uf.FIXED_WIDTH.get(usage, rng.choice([None, 8, 12, 255, 256]))
            for cv in comp_vars:
                q = rng.random()
                if q < 0.65:
                    js.append([cv, weakenings_of_word(rng, width, usage)])
                elif q < 0.85:
                    js.append([cv, "any"])       # evidence that says nothing (but is evidence)
    rng.shuffle(js)
    return var, js, classes


def expected_join(emitted):
    """The join of the emitted evidence for one class according to the lattice model; 'conflict' if contradictory."""
    evs = [e for e in emitted if e != "any"]
    if not evs:
        return "any"
    kinds = {uf.kind(e) for e in evs}
    if kinds == {"word"}:
        cur = evs[0]
        for e in evs[1:]:
            cur = uf.word_join(cur, e)
            if cur is None:
                return "conflict"
        return cur
    if kinds == {"bytes"}:
        return "bytes"
    if kinds <= {"dyn", "word"} and "dyn" in kinds:
        if any(e[2] == "signed" for e in evs if uf.kind(e) == "word"):
            return "conflict"
        return "dyn"
    if kinds == {"map"}:
        return "map"
    if kinds == {"fixed"}:
        return "fixed" if len({e[2] for e in evs}) == 1 else "conflict"
    return "conflict"


def judge(res, nvars, js, classes, r, injected=None):
    res.evaluations += 1
    case = {"nvars": nvars, "judgements": js, "injected": injected}
    cls = r.get("class")
    if cls in ("timeout", "oom", "harness_error", "crash"):
        res.inconc("driver:%s" % cls)
        return
    res.judged += 1
    res.nontriv(common.sha(case))
    if cls == "panic":
        res.violation("c15:panic:%s:%s" % ((r.get("file") or "?").split("/")[-1], r.get("line")), r.get("msg"), case)
        return
    if cls != "ok":
        res.violation("c15:error:%s" % ("stopped" if r.get("stopped") else "other"), r.get("error", "")[:200], case)
        return
    vars_ = r["vars"]
    if injected is not None and injected.get("component_vars"):
        res.count("injected_component_checked")
        cvs = injected["component_vars"]
        bad = [cv for cv in cvs if uf.kind((vars_[cv][1] or ["any"])[0]) != "conflict"]
        if bad:
            res.violation("c15:contradiction-not-conflict:component",
                          "component variables %s are one value; %d got contradictory evidence %s, yet %s resolved to %s" % (
                              cvs, injected["victim"], json.dumps(injected["expr"]), bad[:3],
                              json.dumps((vars_[bad[0]][1] or ["any"])[0])), case)
            return
    for info in classes:
        rep = info["members"][0]
        data = vars_[rep][1]
        got = data[0] if data else "any"
        emitted = list(info["emitted"])
        if injected is not None and injected["class"] is info:
            res.count("injected_checked")
            if uf.kind(got) != "conflict":
                res.violation("c15:contradiction-not-conflict:%s+%s" % (info["kind"], uf.kind(injected["expr"])),
                              "class %s got contradictory evidence %s but resolved to %s" % (
                                  info["members"], json.dumps(injected["expr"]), json.dumps(got)), case)
                return
            continue
        want = expected_join(emitted)
        res.count("class:%s" % info["kind"])
        if want == "conflict":
            # the generator only emits compatible evidence; if the model says conflict the generator is wrong
            res.inconc("generator-emitted-incompatible-evidence")
            continue
        if uf.kind(got) == "conflict":
            res.violation("c15:compatible-evidence-conflicts:%s" % info["kind"],
                          "evidence %s is mutually compatible but the class resolved to a conflict" % json.dumps(emitted)[:300], case)
            return
        if isinstance(want, list) and want[0] == "word":
            if got != want:
                lost = "width" if (uf.kind(got) == "word" and got[1] != want[1]) else "usage"
                res.violation("c15:join-not-most-specific:%s-lost" % lost,
                              "evidence %s should join to %s, got %s" % (json.dumps(emitted)[:200], want, json.dumps(got)), case)
                return
        else:
            if uf.kind(got) != want:
                res.violation("c15:structure-lost:%s-as-%s" % (want, uf.kind(got)),
                              "evidence %s should keep its %s structure, got %s" % (json.dumps(emitted)[:200], want, json.dumps(got)), case)
                return
            # unified components: every variable named for a component position must share a root
            if uf.kind(got) in ("map", "dyn", "fixed"):
                for comp_vars in info.get("components", []):
                    roots = {vars_[cv][0] for cv in comp_vars}
                    if len(roots) > 1:
                        res.violation("c15:components-not-unified:%s" % want,
                                      "component variables %s of class %s have roots %s" % (comp_vars, info["members"], sorted(roots)), case)
                        return
        res.count("classes_joined_as_expected")


def inject(rng, nvars, js, classes):
    """One contradictory judgement into a word-, mapping- or fixed-array-typed class (where 'must conflict' holds
    for every fold order)."""
    # (a) a contradiction that sits in the evidence of ONE component variable of a container whose judgements name
    # several variables for that component: all of them are the same value, so all must end up conflicted
    conts = [(c, cv) for c in classes if c["kind"] in ("map", "dyn", "fixed") and expected_join(c["emitted"]) == c["kind"]
             for cv in c.get("components", []) if len(cv) >= 2]
    if conts and rng.random() < 0.35:
        info, comp_vars = rng.choice(conts)
        victim = rng.choice(comp_vars)
        pair = rng.choice([(["word", 8, "bool"], ["word", 160, "address"]), (["word", 32, "selector"], ["word", 256, "signed"]),
                           (["word", 160, "address"], ["map", 0, 0]), (["word", 64, "unsigned"], ["word", 65, "unsigned"])])
        js2 = list(js) + [[victim, pair[0]], [victim, pair[1]]]
        rng.shuffle(js2)
        return js2, {"class": None, "expr": list(pair), "component_vars": list(comp_vars), "victim": victim}
    cands = [c for c in classes if c["kind"] in ("word", "map", "fixed") and any(e != "any" for e in c["emitted"])]
    if not cands:
        return None
    info = rng.choice(cands)
    if info["kind"] == "word":
        want = expected_join(info["emitted"])
        if not isinstance(want, list):
            return None
        options = []
        if want[1] is not None:
            if rng.random() < 0.5:
                other = rng.choice([w for w in (8, 32, 160, 256) if w != want[1]])
            else:
                # a different width close by: same byte, next byte, off by one
                near = [want[1] + dlt for dlt in (-9, -8, -7, -4, -1, 1, 3, 4, 7, 8, 9) if 1 <= want[1] + dlt <= 256]
                other = rng.choice(near)
            options.append(["word", other, "bytes"] if other not in (8, 160, 32) else ["word", other, "numeric"])
        incompatible = {"bool": "address", "address": "bool", "signed": "unsigned", "unsigned": "signed",
                        "selector": "bool", "function": "bool", "numeric": "bool"}.get(want[2])
        if incompatible:
            w = uf.FIXED_WIDTH.get(incompatible, want[1])
            if want[1] is None or w == want[1] or incompatible in uf.FIXED_WIDTH:
                options.append(["word", w, incompatible])
        options.append(["map", 0, 0])
        expr = rng.choice(options)
        if uf.kind(expr) == "word" and uf.word_join(want, expr) is not None:
            return None
    elif info["kind"] == "map":
        expr = rng.choice([["word", 8, "bool"], ["word", 160, "address"], ["fixed", 0, "0x3"], ["dyn", 0]])
    else:
        ln = int(info["length"], 16)
        # a different length: next to it, or agreeing with it in the low 64 / 128 / 192 bits
        other = rng.choice([ln + 1, ln ^ (1 << 64), ln ^ (1 << 128), ln ^ (1 << 192), ln ^ (1 << 255)]) & ((1 << 256) - 1)
        if other == ln:
            other = ln ^ 1
        expr = rng.choice([["word", 8, "bool"], ["fixed", 0, "0x%x" % other], ["fixed", 0, "0x%x" % other], ["map", 0, 0]])
    js2 = list(js) + [[rng.choice(info["members"]), expr]]
    rng.shuffle(js2)
    return js2, {"class": info, "expr": expr}


def shard(shard_no, nshards, seed, tier, extra):
    res = common.Result()
    rng = common.rng_for(seed, "c15", shard_no)
    n_cases = 2500 if tier == "quick" else 200000
    d = common.Driver("rel", shim=True)
    for i in range(n_cases):
        nvars, js, classes = gen(rng)
        r = d.call({"op": "unify", "nvars": nvars, "judgements": js, "budget": 200_000, "rand_seed": rng.getrandbits(48)}, timeout=120)
        judge(res, nvars, js, classes, r)
        inj = inject(rng, nvars, js, classes)
        if inj:
            js2, what = inj
            r2 = d.call({"op": "unify", "nvars": nvars, "judgements": js2, "budget": 200_000, "rand_seed": rng.getrandbits(48)}, timeout=120)
            judge(res, nvars, js2, classes, r2, injected=what)
            for v in res.violations:
                inj_info = v["case"].get("injected")
                if isinstance(inj_info, dict) and "class" in inj_info:
                    if inj_info["class"] is None:
                        v["case"] = dict(v["case"], injected={k: w for k, w in inj_info.items() if k != "class"})
                    else:
                        v["case"] = dict(v["case"], injected={"expr": inj_info["expr"], "members": inj_info["class"]["members"]})
        if i < 2:
            res.sample({"nvars": nvars, "judgements": js[:10], "classes": [{k: v for k, v in c.items() if k != "emitted"} for c in classes][:3]})
    d.stop()
    return res.to_dict()


def run(tier, seed, t0):
    res = common.Result.merge(common.run_sharded(shard, seed, tier))
    return common.finish(
        PROP, tier, seed, res, "exploration",
        "hidden ground-truth typings of 1-6 classes (words of every usage/width, dynamic bytes, mappings, dynamic and "
        "fixed arrays; 1-3 equal variables per class, fresh component variables per judgement) -> weakenings of the true "
        "type (lower usages, dropped widths, Any, the length word of a dynamic array) plus equalities, in shuffled "
        "order under fresh hash seeds: every class must resolve to the lattice join, never a conflict, with unified "
        "components; then one contradictory judgement is injected into a word / mapping / fixed-array class, which "
        "must resolve to a conflict. distinct = distinct judgement set",
        t0, ["the lattice in vlib/uf.py (Bytes below every usage; Numeric below Unsigned/Signed/Address; Unsigned below "
             "Address; width unknown below any width) is the intended order",
             "contradictions are only injected where 'must conflict' holds for every fold order"], min_judged=500)


def replay(path):
    rec = json.load(open(path))
    case = rec["case"]
    d = common.Driver("rel", shim=True)
    bad = None
    for hs in (1, 2, 3, 4, 5, 6):
        r = d.call({"op": "unify", "nvars": case["nvars"], "judgements": case["judgements"], "budget": 200_000, "rand_seed": hs}, timeout=120)
        if r.get("class") != "ok":
            bad = "class %s" % r.get("class")
            break
        inj = case.get("injected") or {}
        cvs = inj.get("component_vars") or inj.get("members")
        if cvs:
            not_conf = [v for v in cvs if uf.kind((r["vars"][v][1] or ["any"])[0]) != "conflict"]
            if not_conf:
                bad = "variables %s carry contradictory evidence %s but %s resolved to %s (hash seed %d)" % (
                    cvs, json.dumps(inj.get("expr")), not_conf, json.dumps((r["vars"][not_conf[0]][1] or ["any"])[0]), hs)
                break
    d.stop()
    if bad:
        print("VIOLATION-REPLAY", rec.get("signature"), bad)
        return 1
    if not (case.get("injected") or {}):
        print("replay of a join mismatch needs the generator's hidden typing: re-run the check with VERIF_SEED=%s" % rec.get("seed"))
    return 0
