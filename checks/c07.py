"""C07 - every explored path computes what a concrete EVM computes on that path.

Monitor: generated all-constant, stack-safe, loop-free programs are executed by the real symbolic VM (driven through its
public API); every stored end state (stack, requested memory words, storage generations) is serialised as value trees.
Python evaluates the trees with EVM word semantics and compares each state with the end state of the matching path of
an independent concrete EVM that follows both outcomes of every JUMPI.
"""
import json

from vlib import common, evm, evmref, progs, treeeval as te

PROP = "C07"
PROFILES = ("rel",)


def lib_states(resp, code, jumpdests):
    out = []
    for st in resp["states"]["states"]:
        visited = frozenset(ip for ip, c in st["visited"])
        key = frozenset(v for v in visited if v not in jumpdests)
        stack = [te.evaluate_state(t, code) for t in reversed(st["stack"])]
        mem = {int(off, 16): te.evaluate_state(t, code) for off, t in st["mem"]}
        storage = {}
        bad_key = False
        for ktree, gens in st["storage"]:
            if ktree[0] != "k":
                # a key computed from constants (the generator uses one fixed expression per such key)
                k = te.evaluate_state(ktree, code)
                if k is None or k in storage:
                    bad_key = True
                    continue
            else:
                k = te.cval(ktree)
            g = list(gens)
            lead_unwritten = bool(g) and g[0][0] == "unwritten"
            if lead_unwritten:
                g = g[1:]
            storage[k] = (lead_unwritten, [te.evaluate_state(t, code) for t in g])
        out.append({"key": key, "visited": visited, "stack": stack, "mem": mem, "storage": storage, "bad_key": bad_key})
    return out


def ref_state(p, mem_offsets):
    storage = {}
    for k, v in p.writes:
        storage.setdefault(k, []).append(v)
    return {"stack": list(p.stack), "mem": {o: p.memory.get(o, 0) for o in mem_offsets}, "writes": storage,
            "sloads": set(p.sloads)}


def same(lib, ref):
    if lib["stack"] != ref["stack"]:
        return "stack"
    for o, v in ref["mem"].items():
        if lib["mem"].get(o) != v:
            return "memory"
    for k, vals in ref["writes"].items():
        if k not in lib["storage"] or lib["storage"][k][1] != vals:
            return "storage-writes"
    for k, (lead, vals) in lib["storage"].items():
        if k not in ref["writes"]:
            if vals:
                return "storage-phantom-write"
            if k not in ref["sloads"]:
                return "storage-phantom-key"
    return None


def canon_state(s):
    return json.dumps([s["stack"], sorted(s["mem"].items()), sorted((k, v) for k, v in s["storage"].items())])


def match(lib, paths, mem_offsets, jumpdests):
    """Returns (mismatch description or None, unmatched count). Groups by the set of executed offsets."""
    groups = {}
    for p in paths:
        key = frozenset(o for o in p.executed if o not in jumpdests)
        groups.setdefault(key, [[], []])[0].append(p)
    for s in lib:
        groups.setdefault(s["key"], [[], []])[1].append(s)
    for key, (ps, ss) in groups.items():
        if len(ps) != len(ss):
            return "path-count: %d reference paths vs %d states for offsets %s" % (len(ps), len(ss), sorted(key)[:12]), None
        remaining = list(ss)
        for p in ps:
            r = ref_state(p, mem_offsets)
            hit = None
            first_why = None
            for s in remaining:
                why = same(s, r)
                if why is None:
                    hit = s
                    break
                first_why = first_why or why
            if hit is None:
                return "state:%s" % first_why, p
            remaining.remove(hit)
    return None, None


def judge(res, code, g, resp):
    res.evaluations += 1
    case = {"code": code.hex(), "mem_offsets": sorted(g["mem_offsets"])}
    cls = resp.get("class")
    if cls in ("timeout", "oom", "harness_error", "crash"):
        res.inconc("driver:%s" % cls)
        return
    if cls == "panic":
        res.inconc("panic (C01's business): %s:%s" % (resp.get("file", "?").split("/")[-1], resp.get("line")))
        return
    kinds, starts, jumpdests = evm.instruction_starts(code)
    paths, complete = evmref.enumerate_paths(code)
    if not complete:
        res.inconc("reference-incomplete")
        return
    if any("opaque-jump-target" in p.flags for p in paths):
        res.inconc("reference-cannot-resolve-jump-target")
        return
    real_paths = [p for p in paths if p.end != "error-branch"]
    if any(v is None for p in real_paths for v in p.stack):
        res.inconc("non-constant-data")
        return
    lib = lib_states(resp, code, jumpdests)
    if resp["states"]["count"] != len(lib):
        res.inconc("state-cap")
        return
    if any(v is None for s in lib for v in s["stack"]) or any(s["bad_key"] for s in lib):
        # a tree that does not evaluate to a constant in an all-constant program
        pass
    res.judged += 1
    res.count("paths", len(real_paths))
    res.count("max_paths", 0)
    res.counters["max_paths"] = max(res.counters.get("max_paths", 0), len(real_paths))
    for f in g["features"]:
        res.count("feat:" + f)
    if len(real_paths) > 1 or len(g["features"]) >= 4:
        res.nontriv(code.hex())
    why, p = match(lib, real_paths, sorted(g["mem_offsets"]), jumpdests)
    if why is None:
        return
    # attribution to recorded deviations: does the library agree with the reference *with that quirk switched on*?
    for quirks in (("signextend-swapped",), ("byte-index-wrap",), ("byte-index-wrap", "signextend-swapped")):
        qp, _ = evmref.enumerate_paths(code, quirks=quirks)
        qp = [x for x in qp if x.end != "error-branch"]
        exercised = set()
        for x in qp:
            exercised |= x.flags
        if not set(quirks) <= exercised:
            continue
        w2, _ = match(lib, qp, sorted(g["mem_offsets"]), jumpdests)
        if w2 is None:
            res.violation("c07:" + "+".join(quirks),
                          "state differs from the EVM exactly as the recorded deviation(s) predict (%s)" % why, case)
            return
    detail = why
    if p is not None:
        ops = sorted({evm.OPS[code[o]][0] for o in p.executed if kinds[o] not in ("N",) and code[o] in evm.OPS})
        detail = "%s on path %s; ops on path: %s" % (why, p.decisions or "-", ",".join(o for o in ops if not o.startswith("PUSH"))[:200])
    res.violation("c07:%s" % why.split(":")[0 if not why.startswith("state") else 1].split(" ")[0], detail, case)


def shard(shard_no, nshards, seed, tier, extra):
    res = common.Result()
    rng = common.rng_for(seed, "c07", shard_no)
    n = 2500 if tier == "quick" else 150000
    d = common.Driver("rel", shim=False)
    B = evm.boundary_constants()
    for i in range(n):
        allow = {"max_jumpi": 5, "bad_jumps": True}
        if rng.random() < 0.04:
            allow["far"] = True
        code, g = progs.straightline(rng, B, allow=allow)
        gi = {"mem_offsets": g.mem_offsets, "features": g.features}
        if rng.random() < 0.03:
            # the same program inside a long code blob (unreachable padding behind a STOP): CODESIZE, PC and every
            # offset computation now run at lengths beyond the deployed-code and init-code limits
            target = rng.choice([24576, 24577, 24600, 32768, 49152, 49153, 65537])
            if len(code) + 1 < target:
                code = code + b"\x00" + bytes([rng.choice([0x00, 0x5b, 0xfe])]) * (target - len(code) - 1)
                gi["features"] = set(gi["features"]) | {"long-code"}
        req = {"op": "analyze", "code": code.hex(), "direct_vm": True, "observe": ["states"], "annotate": True,
               "mem_offsets": ["0x%x" % o for o in sorted(g.mem_offsets)], "state_cap": 64,
               "cfg": {"permissive": True, "vsize": 100000000}}
        resp = d.call(req, timeout=120)
        judge(res, code, gi, resp)
        if i < 2:
            res.sample({"code": code.hex(), "features": sorted(g.features)})
    d.stop()
    return res.to_dict()


def run(tier, seed, t0):
    res = common.Result.merge(common.run_sharded(shard, seed, tier))
    return common.finish(
        PROP, tier, seed, res, "exploration",
        "random stack-safe loop-free programs (1-6 blocks, forward JUMP/JUMPI to constant targets, <= 5 JUMPIs) over "
        "PUSH0..32, DUP1-16, SWAP1-16, POP, all ALU opcodes, PC, CODESIZE, word-aligned MSTORE/MLOAD, SLOAD/SSTORE with "
        "literal keys and with keys computed from constants (one fixed expression per key); operands biased to boundary constants; 3% of the programs embedded in code blobs of 24 576 .. 65 537 bytes; every stored state is compared with the matching path "
        "of the reference EVM (stack at all depths, memory words, per-key ordered storage writes). distinct = distinct "
        "bytecode; non-trivial = more than one path or >= 4 opcode families",
        t0, ["vlib/evmref.py and vlib/treeeval.py are correct EVM semantics",
             "a Modulo node created by ADDMOD/MULMOD denotes the wide operation (the VM's encoding of those opcodes)",
             "an SLoad node denotes the loaded value; initial storage and memory are zero",
             "run with a value-size limit of 10^8 nodes: the replacement of over-large values by opaque ones is C18's "
             "subject and would otherwise make a constant unevaluable"],
        min_judged=200)


def replay(path):
    case = json.load(open(path))["case"]
    res = common.Result()
    code = bytes.fromhex(case["code"])
    d = common.Driver("rel", shim=False)
    req = {"op": "analyze", "code": code.hex(), "direct_vm": True, "observe": ["states"], "annotate": True,
           "mem_offsets": ["0x%x" % o for o in case["mem_offsets"]], "state_cap": 64, "cfg": {"permissive": True, "vsize": 100000000}}
    resp = d.call(req)
    d.stop()
    judge(res, code, {"mem_offsets": set(case["mem_offsets"]), "features": set()}, resp)
    for v in res.violations:
        print("VIOLATION-REPLAY", v["signature"], v["what"])
    return 1 if res.violations else 0
