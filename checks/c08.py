"""C08 - control flow is followed exactly as the EVM allows, and both branches are taken.

Monitor: programs with constant jump targets of every kind (valid, inside push data, non-JUMPDEST, out of range,
>= 2^32 with valid low bits, computed) and dead code behind invalid jumps / halting instructions run through the real
pipeline; the visit counters of every stored state are read through the public API. Python compares the executed
offsets with the reachable set / path set of an independent reference EVM, and checks that slots written only in dead
code never reach the layout.
"""
import json

from vlib import common, evm, evmref, progs

PROP = "C08"
PROFILES = ("rel",)
def judge(res, code, feats, canary_offsets, resp):
    res.evaluations += 1
    case = {"code": code.hex()}
    cls = resp.get("class")
    if cls in ("timeout", "oom", "harness_error", "crash", "panic"):
        res.inconc("driver:%s" % cls)
        return
    if "states" not in resp:
        res.inconc("no-states:%s" % resp.get("reached"))
        return
    kinds, starts, jumpdests = evm.instruction_starts(code)
    R, paths, complete = evmref.reachable(code)
    if not complete:
        res.inconc("reference-incomplete")
        return
    if any("opaque-jump-target" in p.flags for p in paths):
        res.inconc("reference-cannot-resolve-jump-target")
        return
    res.judged += 1
    for f in feats:
        res.count("feat:" + f)
    real = [p for p in paths if p.end != "error-branch"]
    if len(feats) >= 3:
        res.nontriv(code.hex())
    states = resp["states"]["states"]
    if resp["states"]["count"] != len(states):
        res.inconc("state-cap")
        return
    visited_union = set(resp["visits"]["visited_union"])
    trunc = any(t is not None and t >= (1 << 32) and (t & 0xffffffff) in jumpdests
                for p in paths for (_, _, t) in p.attempts)
    # (1) always: executed offsets are a subset of the reachable ones
    extra = sorted(visited_union - R)
    if extra:
        o = extra[0]
        entry = [e for e in extra if e - 1 not in extra]
        attempts = [(pc, nm, t) for p in paths for (pc, nm, t) in p.attempts if t is not None]
        why = "target-truncated-to-32-bits" if trunc else None
        for e in (entry if why is None else []):
            for pc, nm, t in attempts:
                if t != e and t >= (1 << 32) and (t & 0xffffffff) == e:
                    why = "target-truncated-to-32-bits"
                elif t == e and e not in jumpdests and why is None:
                    why = "jump-to-%s" % ("push-data" if kinds[e] == "N" else "non-jumpdest")
        if why is None:
            prev = max([s_ for s_ in starts if s_ < o], default=0)
            prev_name = evm.OPS.get(code[prev], ("unassigned",))[0] if kinds[prev] != "N" else "pushdata"
            if prev_name.startswith("unassigned") or kinds[prev] in ("I", "T"):
                prev_name = "INVALID" if code[prev] == 0xfe else "unassigned"
            why = "after-%s" % prev_name
        res.violation("c08:dead-code-executed:%s" % why,
                      "offset %d executed but not reachable in the EVM control-flow graph; dead region entries %s; "
                      "all dead offsets: %s" % (o, entry[:6], extra[:20]), case)
        return
    # (2) loop-free and within limits: exactly the reachable set (a taken JUMP lands on its JUMPDEST without marking it)
    taken = {t for p in real for (_, t) in p.taken_jumps}
    missing = sorted(R - visited_union - taken)
    if missing:
        res.violation("c08:reachable-not-executed" + (":target-truncated-to-32-bits" if trunc else ""), "offsets %s reachable but never executed" % missing[:20], case)
        return
    # (3) the same set of paths
    ref_keys = sorted(sorted(o for o in p.executed if o not in jumpdests) for p in real)
    lib_keys = sorted(sorted(ip for ip, c in st["visited"] if ip not in jumpdests) for st in states)
    if ref_keys != lib_keys:
        if len(lib_keys) < len(ref_keys):
            sig = "c08:outcome-not-explored"
        elif len(lib_keys) > len(ref_keys):
            sig = "c08:extra-path"
        else:
            sig = "c08:different-paths"
        if trunc:
            sig += ":target-truncated-to-32-bits"
        res.violation(sig, "%d reference paths, %d explored paths" % (len(ref_keys), len(lib_keys)), case)
        return
    # (4) slots written only in dead code must not be reported
    if resp.get("full_ok") and "layout" in resp:
        reported = {int(e["index"], 16) for e in resp["layout"]}
        dead_slots = {slot for off, slot in canary_offsets.items() if off not in R}
        live_slots = {slot for off, slot in canary_offsets.items() if off in R}
        bad = sorted((dead_slots - live_slots) & reported)
        if bad:
            res.violation("c08:dead-slot-in-layout", "slots %s are written only in unreachable code" % [hex(b) for b in bad], case)
            return
        res.count("layouts_checked")
        res.count("dead_canaries", len(dead_slots - live_slots))


def judge_forks(res, code, cfg, resp):
    """Fork-decision conformance (in-driver monitor over Step / Fork events): a JUMPI with a literal, valid target
    forks if and only if the executing thread has visited the target fewer times than the iteration limit and the
    target has been forked to fewer times than the fork limit."""
    mon = (resp.get("mon") or {})
    if "fork_decisions" not in mon:
        return
    res.count("fork_decisions_checked", mon["fork_decisions"])
    res.count("fork_refusals_by_limit", mon["fork_refusals_expected"])
    for m in mon.get("fork_mismatches", [])[:1]:
        kind = "fork-refused-while-limits-allow" if m["expected"] else "fork-beyond-limits"
        res.violation("c08:%s" % kind,
                      "JUMPI at %d -> %d: the thread had visited the target %d times and it had been forked to %d times "
                      "(limits %s / %s), so a fork was %s, but it %s" % (
                          m["ip"], m["target"], m["thread_visits_of_target"], m["forks_to_target"], cfg.get("iters", "default"),
                          cfg.get("forks", "default"), "due" if m["expected"] else "not allowed",
                          "happened" if m["actual"] else "did not happen"), {"code": code.hex(), "loopy": True, "cfg": cfg})


def judge_loopy(res, code, feats, resp):
    """Programs with loops: only the 'subset' half of the property is decidable here - nothing outside the static
    control-flow graph may be executed."""
    res.evaluations += 1
    if resp.get("class") not in ("ok", "err") or "visits" not in resp:
        res.inconc("driver:%s" % resp.get("class"))
        return
    res.judged += 1
    res.count("loopy_programs")
    R = evmref.static_reachable(code)
    visited = set(resp["visits"]["visited_union"])
    extra = sorted(visited - R)
    if resp["mon"]["forks"] or resp["mon"]["max_visits"] > 1:
        res.nontriv(common.sha(code.hex()))
    if extra:
        res.violation("c08:dead-code-executed:loopy", "offsets %s executed but unreachable in the static control-flow graph" % extra[:16],
                      {"code": code.hex(), "loopy": True})


def shard(shard_no, nshards, seed, tier, extra):
    res = common.Result()
    rng = common.rng_for(seed, "c08", shard_no)
    n = 700 if tier == "quick" else 60000
    d = common.Driver("rel", shim=False)
    for i in range(n // 3):
        code, feats = progs.loopy(rng)
        # dead code behind the program's own terminators
        code = code + rng.choice([b"", bytes.fromhex("60aa61030055"), bytes.fromhex("5b60bb61030155")])
        cfg = {"permissive": True, "iters": rng.randint(1, 6), "forks": rng.choice([1, 2, 5, 20])}
        resp = d.call({"op": "analyze", "code": code.hex(), "direct_vm": True, "cfg": cfg, "observe": ["forks"],
                       "wd": {"every": 100, "stop_at": 30000}}, timeout=120)
        judge_loopy(res, code, feats, resp)
        judge_forks(res, code, cfg, resp)
    for i in range(n):
        code, feats, canary_offsets = progs.controlflow(rng)
        req = {"op": "analyze", "code": code.hex(), "direct_vm": True, "observe": ["states", "forks"], "state_cap": 128,
               "cfg": {"permissive": True}}
        resp = d.call(req, timeout=120)
        judge_forks(res, code, {"permissive": True}, resp)
        if resp.get("class") in ("ok", "err"):
            full = d.call({"op": "analyze", "code": code.hex(), "stage": "analyze", "cfg": {"permissive": True}},
                          timeout=120)
            if full.get("class") == "ok":
                resp["layout"] = full["layout"]
                resp["full_ok"] = True
        judge(res, code, feats, canary_offsets, resp)
        if i < 2:
            res.sample({"code": code.hex(), "features": sorted(feats)})
    d.stop()
    return res.to_dict()


def run(tier, seed, t0):
    res = common.Result.merge(common.run_sharded(shard, seed, tier))
    return common.finish(
        PROP, tier, seed, res, "exploration",
        "random loop-free programs of 2-7 blocks whose JUMP/JUMPI targets are drawn from: valid JUMPDEST, a 0x5b byte "
        "inside push data, a non-JUMPDEST instruction, just past / far past the end, (k<<32)|valid and (k<<64)|valid, "
        "2^256-1, 0, computed constants; blocks end in STOP/RETURN/REVERT/INVALID/SELFDESTRUCT/unassigned bytes or fall "
        "through; every block stores to its own canary slot. Checked: executed offsets subset of the reference "
        "reachable set, equal to it, same path set, dead canary slots absent from the layout. distinct = bytecode; "
        "non-trivial = at least 3 control-flow features. Plus programs with loops (self-loops, nested loops, fork "
        "bombs, jump tables) with dead code appended: executed offsets must lie inside the static control-flow graph",
        t0, ["vlib/evmref.py path enumeration is the EVM control-flow graph", "permissive mode so that bad targets "
             "do not hide the states"], min_judged=200)


def replay(path):
    case = json.load(open(path))["case"]
    res = common.Result()
    code = bytes.fromhex(case["code"])
    d = common.Driver("rel", shim=False)
    rcfg = case.get("cfg") or {"permissive": True}
    resp = d.call({"op": "analyze", "code": code.hex(), "direct_vm": True, "observe": ["states", "forks"], "state_cap": 128,
                   "cfg": rcfg})
    full = d.call({"op": "analyze", "code": code.hex(), "stage": "analyze", "cfg": {"permissive": True}})
    if full.get("class") == "ok":
        resp["layout"] = full["layout"]
        resp["full_ok"] = True
    d.stop()
    if case.get("loopy"):
        judge_loopy(res, code, set(), resp)
        judge_forks(res, code, rcfg, resp)
    else:
        judge(res, code, {"replay", "x", "y"}, {}, resp)
    for v in res.violations:
        print("VIOLATION-REPLAY", v["signature"], v["what"])
    return 1 if res.violations else 0
