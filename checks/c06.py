"""C06 - no missed slots: every constant-key storage access yields a layout entry.

Monitor: as C05, the driver extracts the storage nodes of the execution result; the literal keys (the key node *is* a
constant) of executed SLOAD / SSTORE instructions must each have at least one layout entry at exactly that 256-bit
index, unless the key is the keccak hash of a small slot number.
"""
import json

from vlib import common, evm, keccak, progs

PROP = "C06"
PROFILES = ("rel",)
BUDGET = 6_000_000


def judge(res, code, keys, cfg, r, table):
    res.evaluations += 1
    case = {"code": code.hex(), "cfg": cfg}
    cls = r.get("class")
    if cls in ("timeout", "oom", "harness_error", "crash", "panic"):
        res.inconc("driver:%s" % cls)
        return
    if cls != "ok" or "storage_keys" not in r:
        kinds = sorted({e["kind"] for e in r.get("errors", [])})
        res.inconc("analysis-error:%s" % ",".join(kinds))
        return
    res.judged += 1
    # literal keys of executed accesses: as held by the VM states (primary) and as seen in the exported values
    literal = {int(k, 16) for k in r["storage_keys"]["literal_keys"]} | {int(k, 16) for k in r["storage_keys"].get("state_literal_keys", [])}
    # third, independent source: hook events. An executed SLOAD / SSTORE directly preceded by a PUSH takes that PUSH's
    # immediate as its key (the access is not a JUMPDEST, so it can only have been reached from the PUSH)
    from_steps = set()
    executed = (r.get("mon") or {}).get("executed_ips")
    if executed is not None:
        ex = set(executed)
        kinds = evm.disasm_ref(code)
        prev = None
        for i, kd in enumerate(kinds):
            if kd == "N":
                continue
            if kd == "O" and code[i] in (0x54, 0x55) and i in ex and prev is not None:
                if kinds[prev] == "P":
                    w = code[prev] - 0x5f
                    from_steps.add(int.from_bytes(code[prev + 1:prev + 1 + w], "big"))
                elif kinds[prev] == "O" and code[prev] == 0x5f:
                    from_steps.add(0)
            prev = i
        res.count("literal_keys_from_step_events", len(from_steps))
        if from_steps - literal:
            res.count("keys_seen_only_by_step_events", len(from_steps - literal))
        literal |= from_steps
    slots = {int(e["index"], 16) for e in r["layout"]}
    res.count("literal_keys_executed", len(literal))
    res.count("programs_with_big_keys", int(any(k >= 1 << 64 for k in literal)))
    if literal:
        res.nontriv(common.sha(code.hex() + json.dumps(cfg, sort_keys=True)))
    required = {k for k in literal if k not in table}
    res.count("keys_that_are_small_slot_hashes", len(literal) - len(required))
    missing = sorted(required - slots)
    if missing:
        k = missing[0]
        size = "small" if k < 1 << 64 else ("64-128" if k < 1 << 128 else ">=2^128")
        modes = sorted(keys.get(k, {"?"}))
        res.violation("c06:missed-slot:%s" % size,
                      "literal key %s accessed (%s) but the layout has no entry at that index; layout slots: %s" % (
                          hex(k), modes, [hex(s) for s in sorted(slots)[:8]]), case)


def shard(shard_no, nshards, seed, tier, extra):
    res = common.Result()
    rng = common.rng_for(seed, "c06", shard_no)
    table = keccak.slot_hash_table()
    inv = {v: k for k, v in table.items()}
    # both sides of the exemption's boundary: hashes of the last exempt slot numbers, of the first non-exempt ones, and
    # their neighbours
    edge = [inv[0], inv[1], inv[9998], inv[9999]] + [keccak.keccak_words(i) for i in (10000, 10001, 12345, 65536, 1 << 64)]
    edge += [(h + dlt) & evm.M256 for h in (inv[9999], keccak.keccak_words(10000)) for dlt in (1, -1)]
    from vlib import layoutgen
    alias = layoutgen.aliasing_pool(rng) + layoutgen.aliasing_pool(rng)   # keys agreeing in their low / high bits
    B = evm.boundary_constants() + sorted(table)[:6] + edge + edge + alias + alias
    n = 330 if tier == "quick" else 18000
    d = common.Driver("rel", shim=False)
    contracts = common.corpus_codes(4000 if tier == "quick" else None)
    for ci, (name, code) in enumerate(contracts):
        if ci % nshards != shard_no:
            continue
        cfg = {"permissive": True}
        resp = d.call({"op": "analyze", "code": code.hex(), "stage": "staged", "observe": ["storage_keys", "executed"],
                       "cfg": cfg, "wd": {"every": 100, "stop_at": 200000}}, timeout=600)
        judge(res, code, {}, cfg, resp, table)
        res.count("real_contracts")
    for i in range(n):
        cfg = {"permissive": True}
        if rng.random() < 0.3:
            cfg["vsize"] = rng.choice([1, 2, 3, 5, 10, 40])
        code, keys = progs.literal_keys(rng, B, size_hint=cfg.get("vsize"))
        if rng.random() < 0.2:
            cfg["iters"] = rng.randint(1, 3)
            cfg["forks"] = rng.randint(1, 3)
        req = {"op": "analyze", "code": code.hex(), "stage": "staged", "observe": ["storage_keys", "executed"],
               "cfg": cfg, "wd": {"every": 1, "stop_at": BUDGET}}
        resp = d.call(req, timeout=300)
        judge(res, code, keys, cfg, resp, table)
        if i < 2:
            res.sample({"code": code.hex(), "cfg": cfg, "literal_keys": resp.get("storage_keys", {}).get("literal_keys"),
                        "layout_slots": [e["index"] for e in resp.get("layout", [])]})
    d.stop()
    return res.to_dict()


def run(tier, seed, t0):
    keccak.slot_hash_table()
    res = common.Result.merge(common.run_sharded(shard, seed, tier))
    return common.finish(
        PROP, tier, seed, res, "exploration",
        "programs doing SLOAD/SSTORE with literal keys from the boundary set (0, small, >=2^64, >=2^128, 2^256-1, "
        "EIP-1967 constants, keccak(i) for small i and for i on both sides of the 10000 boundary) and random words, read-only / write-only / mixed, on the first "
        "path, behind symbolic and constant forks, in threads that afterwards die of stack underflow, invalid or "
        "symbolic jumps, INVALID, REVERT or SELFDESTRUCT, amid value-growing noise; value size limit 1..250, small "
        "iteration/fork limits; permissive mode. distinct = (bytecode, config); non-trivial = at least one literal-key "
        "access executed",
        t0, ["'executed' means the storage of some stored VM state holds an entry under that literal key (every SLOAD / "
             "SSTORE leaves one), or a storage node with that key exists among the exported values",
             "keys equal to keccak(i), i < 10000, are exempt (they denote array data)"], min_judged=100)


def replay(path):
    case = json.load(open(path))["case"]
    res = common.Result()
    d = common.Driver("rel", shim=False)
    code = bytes.fromhex(case["code"])
    resp = d.call({"op": "analyze", "code": code.hex(), "stage": "staged", "observe": ["storage_keys", "executed"],
                   "cfg": case["cfg"], "wd": {"every": 1, "stop_at": BUDGET}}, timeout=300)
    d.stop()
    judge(res, code, {}, case["cfg"], resp, keccak.slot_hash_table())
    print(json.dumps(resp.get("layout"))[:800])
    for v in res.violations:
        print("VIOLATION-REPLAY", v["signature"], v["what"])
    return 1 if res.violations else 0
