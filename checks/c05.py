"""C05 - no phantom slots: every reported slot comes from an executed storage access.

Monitor: the staged pipeline is run; before the type checker consumes the execution result the driver walks every value
and extracts the key sub-tree of every SLoad / StorageWrite / UnwrittenStorageValue node (these exist only if an
SLOAD / SSTORE was executed). Python computes the attributable set from those key trees (constants, constant folds,
keccak pre-images of small integers, keccak of constant words, one constant addition) and checks that every slot index
of the layout is in it; with no storage node the layout must be empty.
"""
import glob
import json
import os

from vlib import common, evm, keccak, layoutgen, progs, treeeval as te

PROP = "C05"
PROFILES = ("rel",)
BUDGET = 6_000_000


def subtrees(t, out):
    if isinstance(t, list) and t:
        out.append(t)
        for c in t[1:]:
            if isinstance(c, list):
                subtrees(c, out)


def all_const(t):
    if t[0] == "k":
        return True
    if t[0] in ("v", "cd") or t[0] not in te.FOLDABLE:
        return False
    return all(all_const(c) for c in te.children(t))


def attributable(key_trees, key_consts, table):
    """The set A of slot indices attributable to the executed storage accesses."""
    A0 = {int(c, 16) for c in key_consts}
    hashes = set()
    for kt in key_trees:
        subs = []
        subtrees(kt, subs)
        for s in subs:
            if s[0] not in ("k", "v", "cd") and all_const(s):
                f = te.fold_ref(s)
                if f[0] == "k":
                    A0.add(te.cval(f))
            if s[0] == "sha3":
                data = te.children(s)[0]
                words = None
                if data[0] == "k":
                    words = [te.cval(data)]
                elif data[0] == "concat":
                    ws = []
                    for c in te.children(data):
                        f = te.fold_ref(c) if all_const(c) else None
                        if f is None or f[0] != "k":
                            ws = None
                            break
                        ws.append(te.cval(f))
                    words = ws
                if words:
                    hashes.add(keccak.keccak_words(*words))
    A = set(A0)
    for c in list(A0):
        if c in table:
            A.add(table[c])
    A |= hashes
    for h in hashes:
        for c in A0:
            A.add((h + c) & te.MASK)
    return A


def judge(res, code, info, r, table):
    res.evaluations += 1
    case = {"code": code.hex()}
    cls = r.get("class")
    if cls in ("timeout", "oom", "harness_error", "crash", "panic"):
        res.inconc("driver:%s" % cls)
        return
    if cls != "ok" or "storage_keys" not in r:
        kinds = sorted({e["kind"] for e in r.get("errors", [])})
        res.inconc("analysis-error:%s" % ",".join(kinds))
        return
    res.judged += 1
    sk = r["storage_keys"]
    slots = sorted({int(e["index"], 16) for e in r["layout"]})
    res.count("storage_nodes", sk["nodes"])
    res.count("layout_entries", len(r["layout"]))
    # whether the program executed a storage instruction at all is decided independently of the library's view: from
    # Step events and the reference disassembly (an executed offset holding SLOAD / SSTORE as an instruction)
    executed = (r.get("mon") or {}).get("executed_ips")
    if executed is not None:
        kinds = evm.disasm_ref(code)
        real_access = any(i < len(code) and kinds[i] == "O" and code[i] in (0x54, 0x55) for i in executed)
        if not real_access:
            res.count("storage_free_by_step_events")
            if slots:
                res.violation("c05:layout-without-storage-access:by-step-events",
                              "no SLOAD / SSTORE instruction was executed (step events), yet slots %s are reported (the library "
                              "counts %d storage nodes)" % ([hex(s) for s in slots[:6]], sk["nodes"]), case)
                return
    if sk["nodes"] == 0:
        res.count("storage_free_programs")
        res.nontriv(code.hex() if len(code) < 200 else common.sha(code.hex()))
        if slots:
            res.violation("c05:layout-without-storage-access", "no SLOAD/SSTORE executed, yet slots %s reported" % [hex(s) for s in slots[:6]], case)
        return
    res.count("programs_with_storage")
    if len(sk["key_trees"]) >= 500:
        res.inconc("key-tree-cap")
        return
    if info.get("fake_slots") or info.get("mutated"):
        res.nontriv(common.sha(code.hex()))
    A = attributable(sk["key_trees"], sk["key_consts"], table)
    phantom = [s for s in slots if s not in A]
    if not phantom:
        return
    value_consts = {int(c, 16) for c in sk["value_consts"]}
    vs = set(value_consts)
    for c in list(value_consts):
        if c in table:
            vs.add(table[c])
    if all(p in vs for p in phantom):
        res.violation("c05:value-side-hash-base", "slots %s occur only in the *value* sub-tree of a storage access (as the "
                      "base of a keccak(k||c) / keccak(c)+i pattern), never in a key expression" % [hex(p) for p in phantom[:6]], case)
    else:
        res.violation("c05:phantom-slot", "slots %s are not attributable to any executed storage access (key constants: %s)" % (
            [hex(p) for p in phantom[:6]], sk["key_consts"][:8]), case)


def shard(shard_no, nshards, seed, tier, extra):
    res = common.Result()
    rng = common.rng_for(seed, "c05", shard_no)
    table = keccak.slot_hash_table()
    items = sorted(table.items())[:400]
    n = 260 if tier == "quick" else 14000
    d = common.Driver("rel", shim=False)
    corpus = sorted(glob.glob(os.path.join(common.VERIF, "corpus", "*.hex")))
    small = [p for p in corpus if os.path.getsize(p) < 8000]
    contracts = common.corpus_codes(4000 if tier == "quick" else None)
    for ci, (name, code) in enumerate(contracts):
        if ci % nshards != shard_no:
            continue
        resp = d.call({"op": "analyze", "code": code.hex(), "stage": "staged", "observe": ["storage_keys", "key_trees", "executed"],
                       "cfg": {"permissive": True}, "wd": {"every": 100, "stop_at": 200000}}, timeout=600)
        judge(res, code, {"real-contract": name, "mutated": True}, resp, table)
        res.count("real_contracts")
    for i in range(n):
        r = rng.random()
        info = {}
        if r < 0.2:
            # the program families of the other checks: nested masks and shifts, read-mask-write, boundary constants in
            # every sink position, container-cyclic evidence, width-giving constants
            fam = rng.choice(["mask_shift", "mask_shift", "read_mask_write", "sinks", "cyclic_types", "typed_widths"])
            if fam == "sinks":
                code, _ = progs.sinks(rng, evm.boundary_constants())
            else:
                code, _ = getattr(progs, fam)(rng)
            info = {"family": fam, "mutated": True}
            res.count("family:" + fam)
        elif r < 0.45:
            code, info = progs.lookalike(rng, items, with_storage=False)
        elif r < 0.85:
            code, info = progs.lookalike(rng, items, with_storage=True, allow_value_side=rng.random() < 0.5)
        elif r < 0.95:
            gt = layoutgen.random_ground_truth(rng, nvars=rng.randint(1, 5))
            code = layoutgen.build(gt, rng)
            info = {"layoutgen": True, "fake_slots": {1}}
        else:
            base = bytearray(bytes.fromhex(open(rng.choice(small)).read().strip()))
            for _ in range(rng.randint(1, 4)):
                base[rng.randrange(len(base))] = rng.getrandbits(8)
            code = bytes(base)
            info = {"mutated": True}
        req = {"op": "analyze", "code": code.hex(), "stage": "staged", "observe": ["storage_keys", "key_trees", "executed"],
               "cfg": {"permissive": True}, "wd": {"every": 1, "stop_at": BUDGET}}
        resp = d.call(req, timeout=300)
        judge(res, code, info, resp, table)
        if i < 2:
            res.sample({"code": code.hex(), "storage_nodes": resp.get("storage_keys", {}).get("nodes"),
                        "layout_slots": [e["index"] for e in resp.get("layout", [])]})
    d.stop()
    return res.to_dict()


def run(tier, seed, t0):
    keccak.slot_hash_table()
    res = common.Result.merge(common.run_sharded(shard, seed, tier))
    return common.finish(
        PROP, tier, seed, res, "exploration",
        "storage-free programs full of keccak(key||const), keccak(const)+i, pre-folded keccak(i) constants, masks and "
        "arithmetic whose results reach POP / MSTORE / LOG / RETURN / REVERT / CALL arguments; the same mixed with real "
        "constant, mapping and array accesses (optionally storing a look-alike hash as a *value*); layoutgen programs; "
        "byte-mutated small real contracts; a fifth of the cases from the other checks' families (nested mask-and-shift, "
        "read-mask-write, boundary constants in sink positions, container-cyclic evidence, width-giving constants). distinct = bytecode; non-trivial = storage-free or contains look-alike "
        "hashing / mutation",
        t0, ["the attributable set is computed from the pre-lift key sub-trees of executed storage accesses",
             "closure: constants, constant folds, keccak pre-images below 10000, keccak of constant words, plus one "
             "constant addition to such a hash"], min_judged=100)


def replay(path):
    case = json.load(open(path))["case"]
    res = common.Result()
    d = common.Driver("rel", shim=False)
    code = bytes.fromhex(case["code"])
    resp = d.call({"op": "analyze", "code": code.hex(), "stage": "staged", "observe": ["storage_keys", "key_trees", "executed"],
                   "cfg": {"permissive": True}, "wd": {"every": 1, "stop_at": BUDGET}}, timeout=300)
    d.stop()
    judge(res, code, {"fake_slots": {1}}, resp, keccak.slot_hash_table())
    print(json.dumps(resp.get("layout"))[:800])
    for v in res.violations:
        print("VIOLATION-REPLAY", v["signature"], v["what"])
    return 1 if res.violations else 0
