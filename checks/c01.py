"""C01 - analysis is total: it returns a layout or a structured error, never crashes.

Monitor: every case runs in a driver subprocess (fresh thread with an 8 MiB stack per request, catch_unwind, panic hook
recording message and source location). The oracle is the result class only: `ok` (layout) or `err` (structured Errors)
hold the property; a caught panic, or the worker dying on a signal (native stack overflow, abort), violates it. Cases
are run in the release-like profile (overflow checks on, what users ship) and in the dev profile (debug assertions on).
"""
import glob
import json
import os

from vlib import common, evm, keccak, layoutgen, progs

PROP = "C01"
_ITEMS = None


def HASH_ITEMS():
    global _ITEMS
    if _ITEMS is None:
        from vlib import keccak
        _ITEMS = sorted(keccak.slot_hash_table().items())[:400]
    return _ITEMS

PROFILES = ("rel", "dev")
STAGES = ["analyze", "analyze", "analyze", "staged", "disassemble", "prepare_vm", "execute", "prepare_unifier"]


def msg_class(msg):
    msg = msg or ""
    for key in ("attempt to add with overflow", "attempt to subtract with overflow", "attempt to multiply with overflow",
                "attempt to shift left with overflow", "attempt to shift right with overflow", "index out of bounds",
                "out of range", "called `Option::unwrap()`", "called `Result::unwrap()`", "assertion", "capacity overflow",
                "Shift of non-sub-word", "Equalities should not exist", "attempt to divide by zero", "slice index"):
        if key in msg:
            return key.replace(" ", "-").replace("`", "").replace("(", "").replace(")", "").replace(":", "")
    return "other"


def judge(res, code, req, profile, feats, r):
    res.evaluations += 1
    case = {"code": code.hex() if len(code) <= 3000 else None, "code_sha": common.sha(code.hex()), "request": {
        k: v for k, v in req.items() if k != "code"}, "profile": profile}
    if case["code"] is None:
        case["code_long"] = code.hex()
    cls = r.get("class")
    if cls in ("timeout", "oom", "harness_error"):
        res.inconc("driver:%s" % cls)
        return
    res.judged += 1
    res.count("class:%s:%s" % (profile, cls))
    for f in feats:
        res.count("feat:" + f)
    res.count("stage:" + req.get("stage", "analyze"))
    if cls == "panic":
        f = "/".join((r.get("file") or "?").split("/")[-3:])
        res.violation("c01:panic:%s:%s:%s" % (f, r.get("line"), msg_class(r.get("msg"))),
                      "%s at %s:%s (profile %s)" % (r.get("msg"), r.get("file"), r.get("line"), profile), case)
        return
    if cls == "crash":
        res.violation("c01:crash:signal-%s" % r.get("signal"), "worker died: %s" % (r.get("stderr") or "")[-300:], case)
        return
    if cls == "err":
        for e in r.get("errors", []):
            res.count("error:" + e["kind"])
    if cls in ("ok", "err") and (len(feats) >= 2 or cls == "err"):
        res.nontriv(case["code_sha"] + json.dumps(case["request"], sort_keys=True) + profile)


def rand_cfg(rng):
    cfg = {"permissive": rng.random() < 0.5}
    if rng.random() < 0.6:
        cfg["gas"] = rng.choice([300, 1000, 50_000, 1_000_000, 30_000_000])
        cfg["iters"] = rng.randint(1, 12)
        cfg["forks"] = rng.choice([1, 2, 5, 20, 60])
        cfg["vsize"] = rng.choice([1, 2, 10, 100, 250, 1000])
        cfg["memlimit"] = rng.choice([1, 31, 32, 33, 394, 4096])
    return cfg


def shard(shard_no, nshards, seed, tier, extra):
    res = common.Result()
    rng = common.rng_for(seed, "c01", shard_no)
    B = evm.boundary_constants()
    n = 520 if tier == "quick" else 40000
    drivers = {p: common.Driver(p, shim=False) for p in PROFILES}
    corpus = sorted(glob.glob(os.path.join(common.VERIF, "corpus", "*.hex")))
    contracts = [bytes.fromhex(open(p).read().strip()) for p in corpus]
    small = [c for c in contracts if len(c) < 6000]
    regress = []
    rdir = os.path.join(common.VERIF, "corpus", "regress")
    for p in sorted(glob.glob(os.path.join(rdir, "*.hex"))):
        regress.append(bytes.fromhex(open(p).read().strip()))
    # every operator x operand shape as a 30 000-deep chain through the whole pipeline with the default configuration
    combos = [(op, sh) for op in progs.DEEP_CHAIN_OPS for sh in progs.DEEP_CHAIN_SHAPES]
    for ci, (op, sh) in enumerate(combos):
        if ci % nshards != shard_no or (tier == "quick" and sh == "const-below" and op in ("ISZERO", "NOT")):
            continue
        code, feats = progs.deep_chain(rng, op=op, shape=sh, n=30000 if tier == "quick" else rng.choice([30000, 60000]))
        req = {"op": "analyze", "code": code.hex(), "stage": "analyze", "cfg": {"permissive": True},
               "wd": {"every": 100, "stop_at": 3_000_000}}
        resp = drivers["rel"].call(req, timeout=300)
        judge(res, code, req, "rel", feats, resp)
    for i in range(n):
        r = rng.random()
        if i < len(regress) and shard_no == 0:
            code, feats = regress[i], {"regression-seed"}
        elif r < 0.12:
            ln = rng.choice([1, 2, 3, 5, 8, 20, 50, 100, 300, 600])
            if rng.random() < 0.02:
                ln = 24576
            code, feats = bytes(rng.getrandbits(8) for _ in range(ln)), {"random-bytes"}
        elif r < 0.42:
            code, f = progs.sinks(rng, B + [len(B)])
            feats = {"sinks"} | f
        elif r < 0.48:
            # hostile constants in the operand shapes the lifting passes match on; literal keccak(n) leaves
            if rng.random() < 0.75:
                code, feats = progs.lift_shapes(rng, B)
            else:
                code, feats = progs.hash_constants(rng, HASH_ITEMS())
        elif r < 0.50:
            code, f = progs.deep_chain(rng)
            feats = {"deep-chain"}
        elif r < 0.54:
            code, f = progs.every_producer(rng)
            feats = {"every-producer"}
        elif r < 0.57:
            code, f = progs.typed_widths(rng)
            feats = {"typed-widths"}
        elif r < 0.62:
            code, f = progs.cyclic_types(rng)
            feats = {"cyclic-types"}
        elif r < 0.7:
            code, feats = progs.mask_shift(rng)
            feats = {"mask-shift"} | feats
        elif r < 0.76:
            code, feats = progs.loopy(rng)
        elif r < 0.8:
            gt = layoutgen.random_ground_truth(rng, nvars=rng.randint(1, 5))
            code, feats = layoutgen.build(gt, rng), {"layoutgen"}
        else:
            base = rng.choice(small if rng.random() < 0.8 else contracts)
            code, how = progs.mutate_contract(rng, base, B)
            feats = {"mutated-contract", "mutation:" + how}
        cfg = rand_cfg(rng)
        stage = rng.choice(STAGES)
        req = {"op": "analyze", "code": code.hex(), "stage": stage, "cfg": cfg, "wd": {"every": 100, "stop_at": 30000}}
        if stage == "staged":
            req["observe"] = ["sizes"] if rng.random() < 0.3 else []
        profiles = ["rel"] if rng.random() < 0.6 else ["rel", "dev"]
        if len(code) > 8000:
            profiles = ["rel"]
        for p in profiles:
            resp = drivers[p].call(req, timeout=240)
            judge(res, code, req, p, feats, resp)
        if i < 2:
            res.sample({"code": code.hex()[:400], "stage": stage, "cfg": cfg, "features": sorted(feats)[:6]})
    for d in drivers.values():
        d.stop()
    return res.to_dict()


def miri_requests(shard_no, nshards, seed):
    # sized for a few minutes per shard: Miri runs the pipeline about four orders of magnitude slower than native
    rng = common.rng_for(seed, "c01-miri", shard_no)
    B = evm.boundary_constants()
    reqs = []
    for i in range(9):
        if i % 3 == 0:
            code = bytes(rng.getrandbits(8) for _ in range(rng.choice([3, 10, 30])))
        elif i % 3 == 1:
            a = evm.Asm()
            # one statement of the sinks generator, without the dispatcher
            full, _ = progs.sinks(rng, B)
            code = full[-rng.randint(20, 90):]
        else:
            full, _ = progs.mask_shift(rng)
            code = full[-rng.randint(20, 90):]
        reqs.append({"op": "analyze", "code": code.hex(), "stage": "analyze", "small_hashes": 3, "monitor": False,
                     "cfg": {"permissive": rng.random() < 0.5, "iters": 2, "forks": 2},
                     "wd": {"every": 10, "stop_at": 1500}})
    return reqs


def valgrind_shard(shard_no, nshards, seed, tier, extra):
    from vlib import sanitize
    res = common.Result()
    rng = common.rng_for(seed, "c01-valgrind", shard_no)
    B = evm.boundary_constants()
    corpus = sorted(glob.glob(os.path.join(common.VERIF, "corpus", "*.hex")))
    small = [bytes.fromhex(open(p).read().strip()) for p in corpus if os.path.getsize(p) < 3000]
    d = sanitize.valgrind_driver("rel")
    sent = []
    for i in range(22):
        if i % 4 == 3:
            code, _ = progs.mutate_contract(rng, rng.choice(small), B)
        elif i % 4 == 2:
            code, _ = progs.mask_shift(rng)
        else:
            code, _ = progs.sinks(rng, B)
        req = {"op": "analyze", "code": code.hex(), "stage": "analyze", "cfg": rand_cfg(rng), "wd": {"every": 100, "stop_at": 30000}}
        r = d.call(req, timeout=600)
        sent.append(req)
        res.evaluations += 1
        if r.get("class") in ("ok", "err"):
            res.judged += 1
            res.count("valgrind_cases_completed")
        elif r.get("class") == "panic":
            res.judged += 1
            res.violation("c01:panic:%s:%s:%s" % ("/".join((r.get("file") or "?").split("/")[-3:]), r.get("line"), msg_class(r.get("msg"))),
                          "%s (under valgrind)" % r.get("msg"), {"code": code.hex(), "request": {k: v for k, v in req.items() if k != "code"}, "profile": "rel"})
        else:
            res.inconc("valgrind:driver:%s" % r.get("class"))
            break
    reports, rc, tail = sanitize.valgrind_finish(d)
    res.count("valgrind_reports", len(reports))
    for rep in reports:
        res.violation("c01:valgrind:%s:%s" % (rep["kind"].split(" of size")[0].replace(" ", "-"), rep["frame"]), rep["text"][:500],
                      {"requests": sent[-3:], "under": "valgrind memcheck"})
    if res.judged:
        res.nontriv("valgrind-shard-%d" % shard_no)
    return res.to_dict()


def run(tier, seed, t0):
    res = common.Result.merge(common.run_sharded(shard, seed, tier))
    if tier == "thorough":
        from vlib import sanitize
        m = sanitize.miri_layer(PROP, miri_requests, seed, tier)
        v = common.Result.merge(common.run_sharded(valgrind_shard, seed, tier))
        res = common.Result.merge([res.to_dict(), m.to_dict(), v.to_dict()])
    return common.finish(
        PROP, tier, seed, res, "exploration",
        "raw random byte strings (1..600 bytes, some 24 576); structured stack-aware programs that put boundary "
        "constants (0, 1, 2^k, 2^k+-1, 2^64-1, 2^255, 2^256-1, code length...) into sink positions - shift amounts, "
        "exponents, offsets/sizes of SHA3/RETURN/REVERT/LOGn/CALL*/CREATE*/xCOPY/MLOAD/MSTORE(8), jump targets, storage "
        "keys and slot arithmetic keccak(k||s)+c / keccak(s)+c with c near 2^56..2^64, masks and mask positions; "
        "mask-and-shift, loop and ground-truth programs; real contracts mutated by byte flips, truncation near a PUSH "
        "and substitution of PUSH immediates by boundary constants; regression seeds. Each x random positive VM "
        "configuration x strict/permissive x a stage prefix (one-call analyze, staged, or stopping after disassemble / "
        "prepare_vm / execute / prepare_unifier), in the rel profile and (40%) also the dev profile. distinct = (bytecode, "
        "request, profile); non-trivial = at least two generator features or a structured error returned",
        t0, ["a StoppedByWatchdog error from the step-budget watchdog (3M loop iterations) is a structured error",
             "8 MiB thread stack (the default main-thread stack on Linux)"], min_judged=1000)


def replay(path):
    case = json.load(open(path))["case"]
    res = common.Result()
    code = bytes.fromhex(case.get("code") or case.get("code_long"))
    req = dict(case["request"])
    req["code"] = code.hex()
    d = common.Driver(case["profile"], shim=False)
    resp = d.call(req, timeout=240)
    d.stop()
    judge(res, code, req, case["profile"], set(), resp)
    print(json.dumps(resp)[:600])
    for v in res.violations:
        print("VIOLATION-REPLAY", v["signature"], v["what"])
    return 1 if res.violations else 0
