"""C02 - determinism: the same bytecode and configuration always give the same layout.

Monitor: the same request is analysed repeatedly and the results (success/failure class and, on success, the layout
with conflict explanations stripped) are compared. Iteration orders of the hash maps/sets are varied (a) naturally -
repeated analyses in one process and in 16 different processes, no interposition - and (b) explicitly: the getrandom
shim makes every hash seed a function of a per-request seed, and the class-fold hook forces sorted, reversed and
seeded-shuffle orders of the evidence folded during unification. A divergence is reported with the two seeds/modes
that reproduce it.
"""
import glob
import json
import os

from vlib import common, layoutgen, progs

PROP = "C02"
PROFILES = ("rel",)
BUDGET = {"every": 100, "stop_at": 40000}
ABSORBING = {"dyn_array", "dyn_bytes", "bytes", "struct", "mapping", "array", "any"}


def strip(t):
    """Canonical form of a reported type with conflict payloads removed (the library's equality ignores them)."""
    if isinstance(t, dict):
        if "conflicted_type" in t:
            return "conflicted_type"
        return {k: strip(v) for k, v in t.items()}
    if isinstance(t, list):
        return [strip(x) for x in t]
    return t


def canon(resp):
    if resp.get("class") == "ok":
        return json.dumps(["ok", [[e["index"], e["offset"], strip(e["type"])] for e in resp["layout"]]], sort_keys=True)
    if resp.get("class") == "err":
        return json.dumps(["err", sorted({(e["stage"], e["kind"]) for e in resp.get("errors", [])})])
    return None


def diff_kind(a, b):
    """Classifies the structural difference between two canonical results."""
    a, b = json.loads(a), json.loads(b)
    if a[0] != b[0]:
        return "class-differs"
    if a[0] == "err":
        return "errors-differ"
    la, lb = a[1], b[1]
    ka = [(e[0], e[1]) for e in la]
    kb = [(e[0], e[1]) for e in lb]
    if ka != kb:
        return "entries-differ"
    only_conflict = True

    def walk(x, y):
        nonlocal only_conflict
        if x == y:
            return
        if x == "conflicted_type" or y == "conflicted_type":
            return
        if isinstance(x, dict) and isinstance(y, dict) and x.keys() == y.keys():
            for k in x:
                walk(x[k], y[k])
            return
        if isinstance(x, list) and isinstance(y, list) and len(x) == len(y):
            for p, q in zip(x, y):
                walk(p, q)
            return
        only_conflict = False
    for ea, eb in zip(la, lb):
        walk(ea[2], eb[2])
    return "conflict-vs-type" if only_conflict else "types-differ"


def run_variants(d, code, cfg, rng, n_natural, n_seeds, n_modes):
    base = {"op": "analyze", "code": code.hex(), "stage": "analyze", "cfg": cfg, "wd": BUDGET}
    out = []
    for i in range(n_natural):
        out.append(("natural#%d" % i, d.call(dict(base), timeout=300)))
    for i in range(n_seeds):
        s = rng.getrandbits(40)
        out.append(("hash-seed:%d" % s, d.call(dict(base, rand_seed=s), timeout=300)))
    s0 = rng.getrandbits(40)
    modes = [("sorted", 0), ("reversed", 0)] + [("shuffle", rng.getrandbits(32)) for _ in range(max(0, n_modes - 2))]
    for mode, fs in modes[:n_modes]:
        out.append(("hash-seed:%d+fold:%s:%d" % (s0, mode, fs),
                    d.call(dict(base, rand_seed=s0, fold={"mode": mode, "seed": fs}), timeout=300)))
    return out


KIND_MAP = {"Word": "word", "DynamicArray": "dyn", "Bytes": "bytes", "Packed": "packed", "Mapping": "map",
            "FixedArray": "fixed", "Conflict": "conflict", "Any": "any"}
_C16 = None


def c16_classes():
    global _C16
    if _C16 is None:
        _C16 = {k["signature"].split(":", 2)[2] for k in common.load_known()
                if k["property"] == "C16" and k.get("status") == "known" and k["signature"].startswith("merge:nonassoc:")}
    return _C16


def fold_involves_known_class(folds):
    import itertools
    known = c16_classes()
    for f in folds:
        kinds = []
        for e in f["evidence"]:
            head = ""
            for ch in e:
                if ch.isalpha():
                    head += ch
                else:
                    break
            kinds.append(KIND_MAP.get(head, head.lower()))
        if len(kinds) < 3:
            continue
        for combo in set(itertools.combinations(sorted(kinds), 3)):
            if "+".join(combo) in known:
                return True
    return False


def diagnose(d, code, cfg, rng, seeds, deep=64, budget_s=120):
    """Is the divergence reproducible with the hash seed held fixed and only the unification fold order varied, on a
    program whose folds involve one of the evidence shapes recorded as non-associative under C16?"""
    base = {"op": "analyze", "code": code.hex(), "stage": "analyze", "cfg": cfg, "wd": BUDGET, "observe": ["class_folds"]}
    # first a few orders under every seed, then - the dependence can be as rare as one order in forty - many more
    # shuffles under the first seeds
    plan = [(s, [("sorted", 0), ("reversed", 0)] + [("shuffle", k) for k in range(1, 7)]) for s in seeds]
    more = list(seeds) + [rng.getrandbits(40) for _ in range(24)]
    plan += [(s, [("sorted", 0)] + [("shuffle", k) for k in range(7, 7 + deep)]) for s in more]
    import time
    t_start = time.time()
    for pi, (s, orders) in enumerate(plan):
        if pi >= len(seeds) + 2 and time.time() - t_start > budget_s:
            break
        results = []
        folds = []
        for mode, fs in orders:
            r = d.call(dict(base, rand_seed=s, fold={"mode": mode, "seed": fs}), timeout=300)
            c = canon(r)
            if c is None:
                continue
            results.append(((mode, fs), c))
            folds.extend(r.get("class_folds", []))
            folds.extend(r.get("class_folds_tail", []))
        distinct = {}
        for m, c in results:
            distinct.setdefault(c, m)
        if len(distinct) > 1:
            items = list(distinct.items())
            return {"seed": s, "modes": [items[0][1], items[1][1]], "kind": diff_kind(items[0][0], items[1][0]),
                    "known_shape": fold_involves_known_class(folds), "results": [json.loads(items[0][0]), json.loads(items[1][0])]}
    return None


def judge(res, code, cfg, feats, variants, d=None, rng=None):
    res.evaluations += len(variants)
    case = {"code": code.hex(), "cfg": cfg}
    canons = []
    for name, r in variants:
        if r.get("class") in ("timeout", "oom", "harness_error", "crash"):
            res.inconc("driver:%s" % r.get("class"))
            continue
        if r.get("class") == "panic":
            res.inconc("panic (C01): %s:%s" % ((r.get("file") or "?").split("/")[-1], r.get("line")))
            continue
        c = canon(r)
        canons.append((name, c))
        folds = r.get("mon", {}).get("folds_multi", 0)
        res.counters["max_multi_evidence_folds"] = max(res.counters.get("max_multi_evidence_folds", 0), folds)
    if len(canons) < 2:
        return
    res.judged += 1
    for f in feats:
        res.count("feat:" + f)
    distinct = {}
    for name, c in canons:
        distinct.setdefault(c, name)
    res.count("runs_compared", len(canons))
    if len(json.loads(canons[0][1])[1]) >= 1:
        res.nontriv(common.sha(case))
    if any(json.loads(c)[0] == "err" and ["Unification", "StoppedByWatchdog"] in json.loads(c)[1] for _, c in canons):
        res.count("programs_stopped_by_budget")
    if len(distinct) == 1:
        return
    items = list(distinct.items())
    kind = diff_kind(items[0][0], items[1][0])
    which = "natural" if all(n.startswith("natural") for n in (items[0][1], items[1][1])) else "forced"
    case["variants"] = [items[0][1], items[1][1]]
    case["results"] = [json.loads(items[0][0]), json.loads(items[1][0])]
    if kind == "class-differs":
        # success in one order, budget stop in another: unify divergence is order dependent (C03/C14 finding)
        errs = [x for x in (json.loads(items[0][0]), json.loads(items[1][0])) if x[0] == "err"]
        if errs and any(k == "StoppedByWatchdog" for _, k in errs[0][1]):
            kind = "class-differs:stopped-by-budget"
    diag = None
    if d is not None:
        seeds = []
        for nme in (items[0][1], items[1][1]):
            for part in nme.split("+"):
                if part.startswith("hash-seed:"):
                    seeds.append(int(part.split(":")[1]))
        seeds += [rng.getrandbits(40) for _ in range(4)]
        diag = diagnose(d, code, cfg, rng, seeds)
    if diag is not None:
        k2 = diag["kind"]
        if k2 == "class-differs":
            errs = [x for x in diag["results"] if x[0] == "err"]
            if errs and any(kk == "StoppedByWatchdog" for _, kk in errs[0][1]):
                k2 = "class-differs:stopped-by-budget"
        case["variants"] = ["hash-seed:%d+fold:%s:%d" % (diag["seed"], m[0], m[1]) for m in diag["modes"]]
        case["results"] = diag["results"]
        sig = "c02:fold-order-dependent:%s:%s" % (k2, "known-evidence-shape" if diag["known_shape"] else "unlisted-evidence-shape")
        res.violation(sig, "same hash seed %d, unification fold order %s vs %s gives different results (first seen as %s vs %s)" % (
            diag["seed"], diag["modes"][0], diag["modes"][1], items[0][1], items[1][1]), case)
    else:
        res.violation("c02:hash-order-dependent:%s:%s" % (which, kind), "%d distinct results over %d runs, e.g. %s vs %s; not "
                      "reproducible by varying only the unification fold order" % (len(distinct), len(canons), items[0][1], items[1][1]), case)


def shard(shard_no, nshards, seed, tier, extra):
    res = common.Result()
    rng = common.rng_for(seed, "c02", shard_no)
    n = 44 if tier == "quick" else 1200
    nat, seeds, modes = (4, 4, 4) if tier == "quick" else (10, 10, 12)
    d = common.Driver("rel", shim=True)
    corpus = sorted(glob.glob(os.path.join(common.VERIF, "corpus", "*.hex")))
    small = [p for p in corpus if os.path.getsize(p) < 5000]
    for i in range(n):
        r = rng.random()
        if r < 0.1:
            code, feats = progs.struct_inits(rng)
        elif r < 0.6:
            code, feats = progs.multi_evidence(rng)
        elif r < 0.68:
            pool = layoutgen.aliasing_pool(rng)
            gt = layoutgen.random_ground_truth(rng, nvars=rng.randint(2, min(6, len(pool))), slot_pool=pool)
            code, feats = layoutgen.build(gt, rng), {"layoutgen", "aliasing-slots"}
        elif r < 0.8:
            gt = layoutgen.random_ground_truth(rng, nvars=rng.randint(1, 6))
            code, feats = layoutgen.build(gt, rng), {"layoutgen"}
        elif r < 0.9:
            code, feats = progs.read_mask_write(rng)
        else:
            base = bytes.fromhex(open(rng.choice(small)).read().strip())
            code, how = progs.mutate_contract(rng, base, [0, 1, 2, 255, 1 << 160]) if rng.random() < 0.5 else (base, "none")
            feats = {"real-contract", "mutation:" + how}
        cfg = {"permissive": True}
        variants = run_variants(d, code, cfg, rng, nat, seeds, modes)
        judge(res, code, cfg, feats, variants, d, rng)
        if i < 2:
            res.sample({"code": code.hex()[:600], "variants": [v[0] for v in variants], "layout": variants[0][1].get("layout")})
    d.stop()
    return res.to_dict()


def run(tier, seed, t0):
    res = common.Result.merge(common.run_sharded(shard, seed, tier))
    return common.finish(
        PROP, tier, seed, res, "exploration",
        "multi-evidence programs (each slot gets 2-4 pieces of evidence out of: dynamic-array access, mapping access, "
        "bool write, address write, masked write, packed write, signed use, numeric use, copy from another slot, plain "
        "read, bytes32 compare - in separate dispatch branches), ground-truth layouts (also over slot numbers that agree "
        "in their low or high 32..192 bits), read-mask-write programs and "
        "(mutated) small real contracts; each analysed N times naturally (fresh RandomState per HashMap; 16 worker "
        "processes), under K explicit hash seeds (getrandom shim) and with the unification fold order forced to sorted / "
        "reversed / seeded shuffles. distinct = (bytecode, config); non-trivial = layout with at least one entry",
        t0, ["layout equality ignores conflict explanations, as the library's own PartialEq does",
             "orders not produced by any of the runs are not covered"], min_judged=50)


def replay(path):
    case = json.load(open(path))["case"]
    d = common.Driver("rel", shim=True)
    out = []
    for v in case.get("variants", []):
        req = {"op": "analyze", "code": case["code"], "stage": "analyze", "cfg": case["cfg"], "wd": BUDGET}
        for part in v.split("+"):
            if part.startswith("hash-seed:"):
                req["rand_seed"] = int(part.split(":")[1])
            if part.startswith("fold:"):
                _, mode, fs = part.split(":")
                req["fold"] = {"mode": mode, "seed": int(fs)}
        out.append(canon(d.call(req, timeout=300)))
    d.stop()
    print(out)
    return 1 if len(set(out)) > 1 else 0
