"""C13 - the watchdog can stop analysis at any poll and is polled as often as promised.

Monitor: the driver's Watchdog implementation counts every `should_stop` call and starts answering 'stop' at a chosen
poll index k; hook events mark the start of every iteration of each of the 11 polled loops, so the in-driver monitor
knows, per loop instance, how many iterations started since the last poll (max_gap). With a fixed hash seed the total
number of polls T of a run is reproducible, so 'stop at poll k' is well defined for every k in [0, T].
"""
import json

from vlib import common, layoutgen, progs

PROP = "C13"
PROFILES = ("rel",)
SITES = ["vm.execute", "op.calldatacopy", "op.codecopy", "op.extcodecopy", "op.returndatacopy", "op.store_return_data",
         "tc.lift", "tc.assign_vars", "tc.infer", "tc.unify", "tc.layout"]


def stopped(resp):
    return resp.get("class") == "err" and any(e["kind"] == "StoppedByWatchdog" for e in resp.get("errors", []))


def judge_baseline(res, code, every, base, lazy, fl=None):
    case = {"code": code.hex(), "every": every, "failing_lift": fl}
    mon = base["mon"]
    for site, st in mon["loops"].items():
        res.count("iterations:" + site, st["iterations"])
        res.count("polls:" + site, st["polls"])
        if st["iterations"]:
            res.count("runs_with:" + site)
        if st["max_gap"] > every:
            res.violation("c13:poll-gap:%s" % site, "%d iterations of %s started without a poll (poll_every=%d)" % (
                st["max_gap"], site, every), case)
            return False
        if st["polls"] > st["iterations"] // every + st["instances"]:
            res.violation("c13:over-polling:%s" % site, "%d polls for %d iterations in %d loop instances (poll_every=%d)" % (
                st["polls"], st["iterations"], st["instances"], every), case)
            return False
    # a watchdog that never says stop must not change the result
    if base.get("class") != lazy.get("class") or json.dumps(base.get("layout"), sort_keys=True) != json.dumps(lazy.get("layout"), sort_keys=True) \
            or json.dumps(base.get("errors"), sort_keys=True) != json.dumps(lazy.get("errors"), sort_keys=True):
        res.violation("c13:never-stop-changes-result", "result with a never-stopping watchdog differs from the LazyWatchdog result", case)
        return False
    return True


def judge_stop(res, code, every, k, T, r, seed, fl=None):
    case = {"code": code.hex(), "every": every, "stop_at": k, "total_polls": T, "rand_seed": seed, "failing_lift": fl}
    cls = r.get("class")
    if cls in ("timeout", "oom", "harness_error", "crash", "panic"):
        res.inconc("driver:%s" % cls)
        return
    res.judged += 1
    mon = r["mon"]
    if mon["polls"] <= k:
        # the run ended before poll k was reached: cannot happen with a reproducible poll count
        res.violation("c13:poll-count-not-reproducible", "baseline had %d polls, this run ended after %d" % (T, mon["polls"]), case)
        return
    site = "?"
    if cls == "ok":
        res.violation("c13:stop-ignored", "watchdog said stop from poll %d on (of %d) but a layout was returned" % (k, T), case)
        return
    if not stopped(r):
        res.violation("c13:stop-not-reported", "stopped at poll %d but the error list is %s" % (k, [e["kind"] for e in r.get("errors", [])][:5]), case)
        return
    if mon.get("polls_after_stop_same_instance", 0) > 0:
        res.violation("c13:stop-answer-ignored:%s" % mon.get("stop_site"),
                      "the loop instance that was told to stop (poll %d, site %s) polled %d more times" % (
                          k, mon.get("stop_site"), mon["polls_after_stop_same_instance"]), case)
        return
    if mon["polls_after_stop"] > every + 1:
        res.violation("c13:late-stop", "%d further polls after the first 'stop' answer (poll_every=%d)" % (mon["polls_after_stop"], every), case)
        return
    res.count("stops_honoured")
    res.counters["max_polls_after_stop"] = max(res.counters.get("max_polls_after_stop", 0), mon["polls_after_stop"])


def shard(shard_no, nshards, seed, tier, extra):
    res = common.Result()
    rng = common.rng_for(seed, "c13", shard_no)
    n = 22 if tier == "quick" else 600
    d = common.Driver("rel", shim=True)
    for i in range(n):
        r = rng.random()
        if r < 0.15:
            # programs whose opcodes fail all over the place (bad jumps, stack underflow) in many forked threads: the
            # iterations that end a thread must be polled like any other
            if rng.random() < 0.7:
                code, feats = progs.error_storm(rng)
            else:
                code, feats, _ = progs.controlflow(rng, underflow_p=0.4, symbolic_p=0.2, far_p=0.0)
            feats = set(feats) | {"failing-opcodes"}
        elif r < 0.7:
            code, feats = progs.poll_loops(rng)
        elif r < 0.9:
            gt = layoutgen.random_ground_truth(rng, nvars=rng.randint(2, 8))
            code, feats = layoutgen.build(gt, rng), {"layoutgen"}
        else:
            code, feats = progs.loopy(rng)
        every = rng.choice([1, 1, 2, 3, 7, 100, 1000])
        if "failing-opcodes" in feats:
            every = rng.choice([2, 2, 3, 3, 7, 100])
        hseed = rng.getrandbits(48)
        cfg = {"permissive": rng.random() < 0.5}
        base_req = {"op": "analyze", "code": code.hex(), "stage": "analyze", "cfg": cfg, "rand_seed": hseed}
        if rng.random() < 0.2:
            # a user-defined lifting pass (LiftingPasses::add) that rejects some values: the lifting loop goes on with
            # errors buffered, and must keep polling and keep honouring 'stop' while it does
            base_req["failing_lift"] = {"first": rng.choice([0, 0, 1, 3]), "every": rng.choice([1, 2, 5, 1000])}
            feats = set(feats) | {"failing-lift-pass"}
            res.count("runs_with_a_failing_lift_pass")
        lazy = d.call(dict(base_req), timeout=300)
        base = d.call(dict(base_req, wd={"every": every}), timeout=300)
        res.evaluations += 1
        if base.get("class") not in ("ok", "err") or lazy.get("class") not in ("ok", "err"):
            res.inconc("baseline:%s" % base.get("class"))
            continue
        res.judged += 1
        T = base["mon"]["polls"]
        res.count("total_polls", T)
        res.nontriv(common.sha([code.hex(), every]))
        if not judge_baseline(res, code, every, base, lazy, base_req.get("failing_lift")):
            continue
        # stop points: exhaustive for small T, stratified otherwise
        if T <= (60 if tier == "quick" else 2000):
            ks = list(range(T))
        else:
            ks = sorted(set(list(range(0, 15)) + list(range(max(0, T - 15), T)) + [rng.randrange(T) for _ in range(30 if tier == "quick" else 200)]))
        for k in ks:
            res.evaluations += 1
            rr = d.call(dict(base_req, wd={"every": every, "stop_at": k}), timeout=300)
            judge_stop(res, code, every, k, T, rr, hseed, base_req.get("failing_lift"))
        # a stop point beyond the end behaves like never stopping
        rr = d.call(dict(base_req, wd={"every": every, "stop_at": T + 5}), timeout=300)
        res.evaluations += 1
        if rr.get("class") != base.get("class") or json.dumps(rr.get("layout"), sort_keys=True) != json.dumps(base.get("layout"), sort_keys=True):
            res.violation("c13:unreached-stop-changes-result", "stop point beyond the last poll changed the result", {"code": code.hex(), "every": every})
        if i < 2:
            res.sample({"code": code.hex(), "poll_every": every, "total_polls": T, "stop_points": ks[:8], "loops": base["mon"]["loops"]})
    d.stop()
    return res.to_dict()


def run(tier, seed, t0):
    res = common.Result.merge(common.run_sharded(shard, seed, tier))
    missing = [s for s in SITES if not res.counters.get("runs_with:" + s)]
    code = common.finish(
        PROP, tier, seed, res, "fault_enumeration",
        "programs that spend iterations in each polled loop (long straight-line code; CALLDATACOPY / CODECOPY / "
        "EXTCODECOPY / RETURNDATACOPY and CALL* return data with constant sizes 32..3000; many values, type variables, "
        "classes and constant slots; ground-truth layouts; loops; control-flow programs full of failing opcodes), a fifth of them with a user-defined "
        "lifting pass that rejects some values (errors buffered while the lifting loop goes on) x poll_every in {1,2,3,7,100,1000} x every poll index "
        "k in [0,T) when T is small, otherwise the first and last 15 polls plus random ones, plus a stop point beyond "
        "the end; same hash seed for all runs of a program. distinct = (bytecode, poll_every); each has T+1 fault points",
        t0, ["'a small bounded number of further polls' is poll_every + 1 (a copy loop that is told to stop kills its "
             "thread; the main loop notices at its next poll)",
             "the hash seed makes the poll count reproducible"], min_judged=100,
        extra_cov={"polled_loop_sites_observed": [s for s in SITES if s not in missing], "sites_never_observed": missing})
    if missing and code == 0:
        print("HARNESS-ERROR C13: polled loops never exercised: %s" % missing)
        return 2
    return code


def replay(path):
    case = json.load(open(path))["case"]
    res = common.Result()
    d = common.Driver("rel", shim=True)
    req = {"op": "analyze", "code": case["code"], "stage": "analyze", "rand_seed": case.get("rand_seed", 1),
           "wd": {"every": case["every"], "stop_at": case.get("stop_at")}}
    if case.get("failing_lift"):
        req["failing_lift"] = case["failing_lift"]
    r = d.call(req, timeout=300)
    d.stop()
    print(json.dumps(r)[:1000])
    if "stop_at" in case:
        judge_stop(res, bytes.fromhex(case["code"]), case["every"], case["stop_at"], case.get("total_polls", 0), r, case.get("rand_seed", 1))
    for v in res.violations:
        print("VIOLATION-REPLAY", v["signature"], v["what"])
    return 1 if res.violations else 0
