"""C16 - combining typing evidence is independent of order and grouping.

Monitor: the real `unification::merge` is called on every ordered pair and (through two calls) every ordered triple of
a finite evidence domain; outcomes are normalised (conflicts to one token, emitted equalities to a partition, variables
to the least member of their class, fresh variables by first occurrence) and compared: merge(a,b) vs merge(b,a) and
(a+b)+c vs a+(b+c). The enumeration is exhaustive over the domain.
"""
import itertools
import json
import os

from vlib import common

PROP = "C16"
PROFILES = ("rel",)
NVARS = 4
DATA = os.path.join(common.VERIF, "known_c16_triples.json")


def domain(tier):
    d = ["any", "bytes"]
    for usage in ("bytes", "numeric", "unsigned", "signed"):
        for w in (None, 8, 32, 160, 192, 256):
            d.append(["word", w, usage])
    d += [["word", 8, "bool"], ["word", 160, "address"], ["word", 32, "selector"], ["word", 192, "function"]]
    # widths that are not whole bytes (what an unaligned mask produces), beyond the quantifier's list
    d += [["word", 1, "bytes"], ["word", 7, "bytes"], ["word", 12, "numeric"]]
    # fixed-width usages whose width is not (yet) known: no inference rule emits them, but they are constructible
    # evidence (TE::word(None, WordUse::Address)) and the statement does not exclude them
    d += [["word", None, "address"], ["word", None, "bool"], ["word", None, "selector"], ["word", None, "function"]]
    if tier == "thorough":
        d += [["word", 250, "bytes"], ["word", 255, "unsigned"], ["word", 9, "signed"]]
    d += [["map", 0, 1], ["map", 2, 3], ["dyn", 0], ["dyn", 1]]
    # mappings that share the value variable, or the key variable, with the first one
    d += [["map", 2, 1], ["map", 0, 3]]
    d += [["fixed", 0, "0x1"], ["fixed", 1, "0x1"], ["fixed", 0, "0x2"], ["fixed", 1, "0x2"]]
    # a length that agrees with 0x1 in its low 64 bits (lengths are 256-bit words)
    d += [["fixed", 0, "0x10000000000000001"], ["fixed", 1, "0x10000000000000001"]]
    d += [["conflict"]]
    # packed encodings (beyond the quantifier's list): single spans, an empty one, a signed whole-word one
    d += [["packed", False, [0, 0, 8]], ["packed", False, [1, 0, 160]], ["packed", False, [0, 8, 8]],
          ["packed", False], ["packed", True, [2, 0, 256]]]
    if tier == "thorough":
        d += [["packed", False, [0, 0, 8], [1, 8, 8]], ["packed", False, [1, 0, 8], [0, 8, 152]], ["packed", False, [3, 0, 0]]]
    return d


def string_slot_domain():
    """A second, small domain around the string-slot pattern (a dynamic array / `bytes` meeting the packed encoding
    {flag bit (0,1), short length (1,7), data (8,248)}), with the spans of the packed encodings listed in ascending, in
    descending and in mixed order: the order in which spans happen to be listed is not evidence."""
    d = ["bytes", ["dyn", 0], ["word", 256, "bytes"], ["word", 8, "unsigned"], ["word", None, "signed"], ["word", 256, "signed"],
         ["word", None, "numeric"]]
    spans = {"f": [1, 0, 1], "l": [2, 1, 7], "d": [3, 8, 248]}
    for names in ("f", "l", "d", "fl", "lf", "fd", "df", "ld", "dl", "fld", "dlf", "lfd", "dfl"):
        d.append(["packed", False] + [spans[c] for c in names])
    return d


def key(e):
    return json.dumps(e)


def is_conflict(e):
    return isinstance(e, list) and e and e[0] == "conflict"


class UF:
    def __init__(self):
        self.p = {}

    def find(self, x):
        self.p.setdefault(x, x)
        while self.p[x] != x:
            self.p[x] = self.p[self.p[x]]
            x = self.p[x]
        return x

    def union(self, a, b):
        ra, rb = self.find(a), self.find(b)
        if ra != rb:
            if ra < rb:
                self.p[rb] = ra
            else:
                self.p[ra] = rb


def rewrite(e, rep):
    if isinstance(e, str):
        return e
    tag = e[0]
    if tag == "conflict":
        return "CONFLICT"
    if tag == "word":
        return e
    if tag == "eq":
        return ["eq", rep(e[1])]
    if tag == "fixed":
        return ["fixed", rep(e[1]), e[2]]
    if tag == "map":
        return ["map", rep(e[1]), rep(e[2])]
    if tag == "dyn":
        return ["dyn", rep(e[1])]
    if tag == "packed":
        return ["packed", e[1]] + sorted([[rep(s[0]), s[1], s[2]] for s in e[2:]], key=lambda s: (s[1], s[2], s[0]))
    return e


def normalise(expr, steps):
    """steps: list of merge results (dicts with eqs, judgements, new_vars) that led to expr."""
    uf = UF()
    fresh = {}
    for st in steps:
        for v in st["new_vars"]:
            if v not in fresh:
                fresh[v] = 1000 + len(fresh)

    def nm(v):
        return fresh.get(v, v)
    for st in steps:
        for a, b in st["eqs"]:
            uf.union(nm(a), nm(b))

    def rep(v):
        return uf.find(nm(v))
    classes = {}
    for v in list(uf.p):
        classes.setdefault(uf.find(v), set()).add(v)
    part = sorted(sorted(c) for c in classes.values() if len(c) > 1)
    judgements = sorted(json.dumps([rep(j[0]), rewrite(j[1], rep)]) for st in steps for j in st["judgements"])
    return json.dumps([rewrite(expr, rep), part, judgements])


def merge_all(d, pairs):
    out = {}
    todo = [p for p in pairs]
    for i in range(0, len(todo), 4000):
        chunk = todo[i:i + 4000]
        r = d.call({"op": "batch", "reqs": [{"op": "merge_batch", "nvars": NVARS, "parent": 0, "pairs": [[a, b]]}
                                            for a, b in chunk]}, timeout=600)
        if r.get("class") != "ok":
            raise common.HarnessError("merge batch failed: %s" % json.dumps(r)[:300])
        for (a, b), rr in zip(chunk, r["results"]):
            if rr.get("class") == "ok":
                out[(key(a), key(b))] = rr["results"][0]
            else:
                out[(key(a), key(b))] = {"panic": rr}
    return out


def shape(e):
    if isinstance(e, str):
        return e
    return e[0]


def unify_outcome(r):
    """Normalised outcome of a unify run for variable 0 and the partition of the declared variables."""
    if r.get("class") == "panic":
        return "PANIC:%s:%s" % ((r.get("file") or "?").split("/")[-1], r.get("line"))
    if r.get("class") != "ok":
        return "ERR:%s" % ("stopped" if r.get("stopped") else r.get("class"))
    vars_ = r["vars"]
    names = {}

    def rep(v):
        root = vars_[v][0] if v < len(vars_) else v
        return names.setdefault(root, len(names))
    data = vars_[0][1]
    exprs = sorted(json.dumps(rewrite(e, rep)) for e in (data or []))
    part = {}
    for v in range(NVARS):
        part.setdefault(vars_[v][0], []).append(v)
    return json.dumps([exprs, sorted(part.values())])


def unify_level(res, dom, known_triples, tier, seed):
    """The same law one level up: the pieces of evidence are given to the real `unify` as judgements about one
    variable, and the order in which `unify` folds them is forced (sorted / reversed / seeded shuffles)."""
    import random
    rng = random.Random(seed ^ 0xC16)
    d = common.Driver("rel", shim=True)
    known_sets = set()
    for tk in known_triples:
        known_sets.add(json.dumps(sorted(json.dumps(x) for x in json.loads(tk))))
    orders = [{"mode": "sorted", "seed": 0}, {"mode": "reversed", "seed": 0}] + [{"mode": "shuffle", "seed": k} for k in (1, 2, 3, 4)]
    # packed encodings are left out at this level: merging them emits judgements about their span variables, which
    # are folded in later rounds and can then meet one of the recorded non-associative shapes although the triple
    # itself is associative - that order dependence is the recorded C16 / C02 finding, not a new one
    udom = [e for e in dom if shape(e) != "packed"]
    cases = [[a, b] for a in udom for b in udom if key(a) <= key(b)]
    n_tri = 5000 if tier == "quick" else 60000
    tried = 0
    while tried < n_tri:
        t = [rng.choice(udom) for _ in range(3)]
        tried += 1
        if json.dumps(sorted(json.dumps(x) for x in t)) in known_sets:
            res.count("unify_level_skipped_known_triples")
            continue
        cases.append(t)
    for i in range(0, len(cases), 400):
        chunk = cases[i:i + 400]
        reqs = []
        for ev in chunk:
            for o in (orders if len(ev) == 3 else orders[:2]):
                reqs.append({"op": "unify", "nvars": NVARS, "judgements": [[0, e] for e in ev], "budget": 100_000, "fold": o,
                             "rand_seed": 7})
        r = d.call({"op": "batch", "reqs": reqs}, timeout=900)
        if r.get("class") != "ok":
            res.inconc("unify-level:batch:%s" % r.get("class"))
            continue
        it = iter(r["results"])
        for ev in chunk:
            outs = [unify_outcome(next(it)) for _ in (orders if len(ev) == 3 else orders[:2])]
            res.evaluations += 1
            res.judged += 1
            res.count("unify_level_cases")
            if len(ev) == 3:
                res.nontriv("u:" + json.dumps(ev))
            if len(set(outs)) > 1:
                a, b = sorted(set(outs))[:2]
                res.violation("unify:fold-order-dependent:%s" % "+".join(sorted(shape(e) for e in ev)),
                              "the same evidence about one variable folded in different orders resolves differently: %s vs %s" % (a[:160], b[:160]),
                              {"evidence": ev, "unify_level": True})
    d.stop()


def run(tier, seed, t0):
    res = common.Result()
    dom = domain(tier)
    known_triples = {}
    if os.path.exists(DATA):
        known_triples = json.load(open(DATA))
    dump = {}
    algebra(res, dom, known_triples, dump)
    dom2 = string_slot_domain()
    algebra(res, dom2, known_triples, dump)
    res.counters["string_slot_domain_size"] = len(dom2)
    unify_level(res, dom, known_triples, tier, seed)
    res.counters["domain_size"] = len(dom)
    if os.environ.get("C16_DUMP"):
        json.dump(dump, open(os.environ["C16_DUMP"], "w"), indent=0, sort_keys=True)
    return finish_c16(tier, seed, res, dom, t0)


def algebra(res, dom, known_triples, dump):
    """Symmetry over all ordered pairs and associativity over all ordered triples of `dom`, through the real merge."""
    d = common.Driver("rel", shim=False)
    pairs = list(itertools.product(dom, dom))
    m1 = merge_all(d, pairs)
    # second-level merges needed for the triples
    need = {}
    for a, b in pairs:
        r = m1[(key(a), key(b))]
        if "panic" in r:
            continue
        for c in dom:
            need[(key(r["expr"]), key(c))] = (r["expr"], c)
            need[(key(c), key(r["expr"]))] = (c, r["expr"])
    missing = [v for k, v in need.items() if k not in m1]
    m2 = merge_all(d, missing)
    d.stop()
    m1.update(m2)

    def outcome(x, y):
        return m1[(key(x), key(y))]
    # symmetry
    for a, b in pairs:
        res.evaluations += 1
        r1, r2 = outcome(a, b), outcome(b, a)
        case = {"a": a, "b": b}
        if "panic" in r1 or "panic" in r2:
            res.judged += 1
            p = r1.get("panic") or r2.get("panic")
            res.violation("merge:panic:%s:%s" % (p.get("file", "?").split("/")[-1], p.get("line")), p.get("msg"), case)
            continue
        res.judged += 1
        if a != b and a != "any" and b != "any":
            res.nontriv("pair:" + key(a) + key(b))
        n1, n2 = normalise(r1["expr"], [r1]), normalise(r2["expr"], [r2])
        if n1 != n2:
            res.violation("merge:asymmetric:%s+%s" % tuple(sorted([shape(a), shape(b)])),
                          "merge(a,b)=%s but merge(b,a)=%s" % (n1, n2), case)
        res.count("pairs")
    # associativity
    for a, b, c in itertools.product(dom, dom, dom):
        res.evaluations += 1
        ab, bc = outcome(a, b), outcome(b, c)
        if "panic" in ab or "panic" in bc:
            continue
        l2 = outcome(ab["expr"], c)
        r2 = outcome(a, bc["expr"])
        if "panic" in l2 or "panic" in r2:
            p = l2.get("panic") or r2.get("panic")
            res.judged += 1
            res.violation("merge:panic:%s:%s" % (p.get("file", "?").split("/")[-1], p.get("line")), p.get("msg"),
                          {"a": a, "b": b, "c": c})
            continue
        res.judged += 1
        res.count("triples")
        left = normalise(l2["expr"], [ab, l2])
        right = normalise(r2["expr"], [bc, r2])
        if len({key(a), key(b), key(c)}) == 3 and "any" not in (a, b, c):
            res.nontriv("t:" + key(a) + key(b) + key(c))
        if left != right:
            tk = key([a, b, c])
            dump[tk] = [left, right]
            cls = "+".join(sorted([shape(a), shape(b), shape(c)]))
            listed = known_triples.get(tk)
            if listed is not None and listed == [left, right]:
                res.violation("merge:nonassoc:" + cls, "(a+b)+c=%s but a+(b+c)=%s" % (left, right),
                              {"a": a, "b": b, "c": c, "left": left, "right": right})
            else:
                tag = "changed" if listed is not None else "unlisted"
                res.violation("merge:nonassoc-%s:%s" % (tag, cls), "(a+b)+c=%s but a+(b+c)=%s" % (left, right),
                              {"a": a, "b": b, "c": c, "left": left, "right": right})
    if len(dom) > 30:
        res.sample({"pair": [dom[2], dom[30]], "merge": outcome(dom[2], dom[30])})
        res.sample({"triple": [dom[-3], dom[3], dom[9]]})


def finish_c16(tier, seed, res, dom, t0):
    return common.finish(
        PROP, tier, seed, res, "exploration",
        "exhaustive over a %d-element evidence domain (Any, dynamic bytes, words of every usage x widths "
        "{unknown,8,32,160,192,256}, two mappings, two dynamic arrays, four fixed arrays, a conflict%s): all %d ordered "
        "pairs (symmetry) and all %d ordered triples (associativity); the same two laws exhaustively over a second 20-element "
        "domain around the string-slot pattern (bytes, a dynamic array, words, and packed encodings of the flag / length / data "
        "spans listed in ascending, descending and mixed order); the same law one level up: all unordered pairs and "
        "sampled triples (excluding the recorded non-associative ones) as judgements about one variable, unified by the real "
        "`unify` with its fold order forced to sorted / reversed / 4 shuffles. distinct = distinct ordered pair/triple; "
        "non-trivial = pairwise different elements and no Any" % (
            len(dom), "; plus packed encodings" if tier == "thorough" else "", len(dom) ** 2, len(dom) ** 3),
        t0, ["normalisation (conflict token, equality partition, least representative) is the equivalence C16 states"],
        min_judged=1000, exhaustive=True)


def replay(path):
    case = json.load(open(path))["case"]
    if case.get("unify_level"):
        d = common.Driver("rel", shim=True)
        outs = []
        for o in [{"mode": "sorted", "seed": 0}, {"mode": "reversed", "seed": 0}] + [{"mode": "shuffle", "seed": k} for k in (1, 2, 3, 4)]:
            r = d.call({"op": "unify", "nvars": NVARS, "judgements": [[0, e] for e in case["evidence"]], "budget": 100_000,
                        "fold": o, "rand_seed": 7})
            outs.append(unify_outcome(r))
        d.stop()
        print(sorted(set(outs)))
        if len(set(outs)) > 1:
            print("VIOLATION-REPLAY unify:fold-order-dependent")
            return 1
        return 0
    d = common.Driver("rel", shim=False)
    els = [case[k] for k in ("a", "b", "c") if k in case]

    def one(x, y):
        return merge_all(d, [(x, y)])[(key(x), key(y))]
    bad = None
    if len(els) == 2:
        r1, r2 = one(els[0], els[1]), one(els[1], els[0])
        if "panic" in r1 or "panic" in r2:
            bad = "merge:panic"
        elif normalise(r1["expr"], [r1]) != normalise(r2["expr"], [r2]):
            bad = "merge:asymmetric"
        print(json.dumps([r1, r2])[:1200])
    else:
        a, b, c = els
        ab, bc = one(a, b), one(b, c)
        if "panic" in ab or "panic" in bc:
            bad = "merge:panic"
        else:
            l2, r2 = one(ab["expr"], c), one(a, bc["expr"])
            if "panic" in l2 or "panic" in r2:
                bad = "merge:panic"
            else:
                left, right = normalise(l2["expr"], [ab, l2]), normalise(r2["expr"], [bc, r2])
                print("(a+b)+c =", left, "\na+(b+c) =", right)
                if left != right:
                    known = json.load(open(DATA)) if os.path.exists(DATA) else {}
                    bad = "merge:nonassoc (listed)" if known.get(key([a, b, c])) == [left, right] else "merge:nonassoc-unlisted"
    d.stop()
    if bad:
        print("VIOLATION-REPLAY", bad)
    return 1 if bad and "(listed)" not in bad else 0
