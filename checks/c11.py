"""C11 - a slot's reported type depends only on the code that touches that slot.

Monitor: relational comparison of layouts returned at the API boundary. (1) Fragments A and B over disjoint slot sets
are analysed alone and together behind a dispatcher: every slot must have the same entries in D(A,B) as in its own
fragment. (2) A program and its image under an injective renumbering of slot constants must have layouts that are
images of each other. Each program is analysed under 3 hash seeds and, under the first of them, with the unification fold order forced to
sorted / reversed / two shuffles; slots whose entries differ between any of these runs are the order dependence
recorded under C02 and are excluded (counted), so that it cannot raise alarms here.
"""
import json

from vlib import common, keccak, layoutgen, progs
from checks.c02 import strip

PROP = "C11"
PROFILES = ("rel",)
BUDGET = {"every": 100, "stop_at": 40000}
NSEEDS = 3


def by_slot(layout):
    out = {}
    for e in layout:
        out.setdefault(int(e["index"], 16), []).append([e["offset"], strip(e["type"])])
    return {k: json.dumps(v, sort_keys=True) for k, v in out.items()}


def stable_layout(d, code, seeds, cfg=None):
    """Analyses under several hash seeds; returns (per-slot entries for slots stable across seeds, unstable slots) or
    None if any run failed."""
    runs = []
    # hash seeds vary every iteration order; on top of that the unification fold order - the one order known to change
    # results (C02's recorded finding) - is forced to sorted / reversed / two shuffles under the first seed
    variants = [(s, None) for s in seeds] + [(seeds[0], {"mode": m, "seed": k}) for m, k in
                                             (("sorted", 0), ("reversed", 0), ("shuffle", 1), ("shuffle", 2))]
    for s, fold in variants:
        req = {"op": "analyze", "code": code.hex(), "stage": "analyze", "cfg": dict(cfg or {}, permissive=True),
               "wd": BUDGET, "rand_seed": s}
        if fold:
            req["fold"] = fold
        r = d.call(req, timeout=300)
        if r.get("class") != "ok":
            return None, r
        runs.append(by_slot(r["layout"]))
        mon = r.get("mon", {})
        if mon.get("max_visits", 0) >= 10 or any(c >= 50 for _, c in mon.get("forks_to", [])):
            return None, {"class": "limit-reached"}
    slots = set().union(*[set(x) for x in runs])
    stable, unstable = {}, set()
    for s in slots:
        vals = {x.get(s) for x in runs}
        if len(vals) == 1:
            stable[s] = runs[0][s]
        else:
            unstable.add(s)
    return (stable, unstable), None


def judge_union(res, case, la, lb, ld, slots_a, slots_b):
    (sa, ua), (sb, ub), (sd, ud) = la, lb, ld
    res.judged += 1
    for frag, st, un, own in (("A", sa, ua, slots_a), ("B", sb, ub, slots_b)):
        for slot in own:
            if slot in un or slot in ud:
                res.count("slots_unstable_across_hash_seeds (C02)")
                continue
            alone = st.get(slot)
            together = sd.get(slot)
            res.count("slots_compared")
            if alone != together:
                if alone is None or together is None:
                    sig = "c11:slot-%s" % ("appears-only-in-combination" if alone is None else "lost-in-combination")
                else:
                    sig = "c11:slot-type-changes-with-unrelated-code"
                res.violation(sig, "slot %s of fragment %s: alone %s, behind the dispatcher %s" % (hex(slot), frag, alone, together),
                              dict(case, slot=hex(slot)))
                return
    for slot in sd:
        if slot not in slots_a and slot not in slots_b and slot not in ud:
            # a slot outside the declared pools (e.g. a literal 256-bit key one fragment uses): it must come from exactly
            # one fragment's own layout, unchanged
            if slot in ua or slot in ub:
                continue
            alone = [x for x in (sa.get(slot), sb.get(slot)) if x is not None]
            if not alone:
                res.violation("c11:slot-from-nowhere", "slot %s is reported for the combination but by neither fragment alone" % hex(slot), case)
                return
            if len(alone) == 1 and alone[0] != sd[slot]:
                res.violation("c11:slot-type-changes-with-unrelated-code", "slot %s (outside the declared pools): alone %s, behind the "
                              "dispatcher %s" % (hex(slot), alone[0], sd[slot]), dict(case, slot=hex(slot)))
                return


def judge_renumber(res, case, lp, lq, sigma, how):
    res.judged += 1
    (sp, up), (sq, uq) = lp, lq
    for s, t in sigma.items():
        if s in up or t in uq:
            res.count("slots_unstable_across_hash_seeds (C02)")
            continue
        res.count("slots_compared")
        if sp.get(s) != sq.get(t):
            res.violation("c11:renumbering-changes-type:%s" % how, "slot %s -> %s: %s vs %s" % (hex(s), hex(t), sp.get(s), sq.get(t)),
                          dict(case, slot=hex(s)))
            return
    extra_q = [t for t in sq if t not in sigma.values() and t not in uq]
    extra_p = [s for s in sp if s not in sigma and s not in up]
    if sorted(extra_q) != sorted(extra_p):
        res.violation("c11:renumbering-changes-slot-set", "slots outside the renumbering: %s vs %s" % (extra_p[:4], extra_q[:4]), case)


def shard(shard_no, nshards, seed, tier, extra):
    res = common.Result()
    rng = common.rng_for(seed, "c11", shard_no)
    n = 60 if tier == "quick" else 3000
    d = common.Driver("rel", shim=True)
    table = keccak.slot_hash_table()
    for i in range(n):
        seeds = [rng.getrandbits(40) for _ in range(NSEEDS)]
        mode = rng.choice(["union", "union", "renumber"])
        # a small value-size limit makes the VM replace over-large values by opaque ones all over the place; the
        # same configuration is used for every program of a case
        cfg = {"vsize": rng.choice([3, 3, 6, 12, 30])} if rng.random() < 0.4 else {}
        pool = rng.sample(range(0, 60), 12)
        if mode == "union":
            slots_a, slots_b = pool[:rng.randint(1, 4)], pool[6:6 + rng.randint(1, 4)]
            if rng.random() < 0.5:
                gt_a = layoutgen.random_ground_truth(rng, nvars=len(slots_a), slot_pool=slots_a)
                gt_b = layoutgen.random_ground_truth(rng, nvars=len(slots_b), slot_pool=slots_b)
                slots_a, slots_b = [v["slot"] for v in gt_a], [v["slot"] for v in gt_b]
                import random
                sa, sb = rng.getrandbits(32), rng.getrandbits(32)

                def frag(gt, s):
                    out = []
                    for vi, var in enumerate(gt):
                        for m in var.get("_modes", "rw"):
                            def body(a, var=var, m=m, s=s, vi=vi):
                                r = random.Random(s * 1000 + vi)
                                (layoutgen.emit_read if m == "r" else layoutgen.emit_write)(a, var, r)
                                a.emit("STOP")
                            out.append(body)
                    return out
                for var in gt_a + gt_b:
                    var["_modes"] = rng.choice(["r", "w", "rw"])
                br_a, br_b = frag(gt_a, sa), frag(gt_b, sb)
                kind = "layoutgen"
            else:
                br_a = progs.evidence_branches(rng, slots_a, foreign=slots_b)
                br_b = progs.evidence_branches(rng, slots_b, foreign=slots_a)
                kind = "evidence"
            shape = rng.choice(["chain", "split", "fallthrough"])
            code_a = progs.dispatcher(br_a, rng.choice(["chain", "split"]), salt=1)
            code_b = progs.dispatcher(br_b, rng.choice(["chain", "split"]), salt=2)
            mixed = br_a + br_b
            order = list(range(len(mixed)))
            rng.shuffle(order)
            code_d = progs.dispatcher([mixed[j] for j in order], shape, salt=3)
            res.evaluations += 1
            case = {"mode": "union", "kind": kind, "shape": shape, "code_a": code_a.hex(), "code_b": code_b.hex(), "code_d": code_d.hex(),
                    "slots_a": slots_a, "slots_b": slots_b, "seeds": seeds, "cfg": cfg}
            la, ea = stable_layout(d, code_a, seeds, cfg)
            lb, eb = stable_layout(d, code_b, seeds, cfg)
            ld, ed = stable_layout(d, code_d, seeds, cfg)
            if la is None or lb is None or ld is None:
                bad = ea or eb or ed
                res.inconc("analysis:%s" % (bad.get("class") if bad.get("class") != "err" else ",".join(sorted({e["kind"] for e in bad.get("errors", [])}))))
                continue
            res.count("mode:union:%s:%s" % (kind, shape))
            if cfg:
                res.count("cases_with_small_value_size_limit")
            res.nontriv(common.sha([case["code_a"], case["code_b"], shape]))
            judge_union(res, case, la, lb, ld, set(slots_a), set(slots_b))
            if i < 2:
                res.sample({"mode": "union", "slots_a": slots_a, "slots_b": slots_b, "shape": shape, "code_d": code_d.hex()[:300]})
        else:
            slots = pool[:rng.randint(1, 5)]
            gt = layoutgen.random_ground_truth(rng, nvars=len(slots), slot_pool=slots)
            how = rng.choice(["small-small", "small-big", "small-mid", "small-alias", "small-text"])
            text_pool = [int.from_bytes(nm.ljust(32, b"\0"), "big") for nm in
                         (b"balances", b"owner", b"allowances", b"my.storage.slot", b"a", b"x y", b"0123456789abcdef0123456789abcdef")]
            sigma = {}
            alias_low = rng.randrange(0, 50)
            for v in gt:
                while True:
                    t = {"small-small": rng.randrange(0, 200), "small-big": rng.getrandbits(200) | (1 << 130),
                         "small-mid": rng.randrange(1 << 16, 1 << 64),
                         # all images agree in their low 64 bits
                         "small-alias": alias_low + (rng.randrange(0, 6) << rng.choice([64, 128, 192])),
                         # slot numbers whose bytes read as text
                         "small-text": rng.choice(text_pool)}[how]
                    if t not in sigma.values() and t not in table:
                        break
                sigma[v["slot"]] = t
            modes = [rng.choice(["r", "w", "rw"]) for _ in gt]
            s_build = rng.getrandbits(32)
            import random
            code_p = layoutgen.build([dict(v) for v in gt], random.Random(s_build), modes)
            gt2 = [dict(v, slot=sigma[v["slot"]]) for v in gt]
            code_q = layoutgen.build(gt2, random.Random(s_build), modes)
            res.evaluations += 1
            case = {"mode": "renumber", "how": how, "code_p": code_p.hex(), "code_q": code_q.hex(),
                    "sigma": {hex(k): hex(v) for k, v in sigma.items()}, "seeds": seeds, "cfg": cfg}
            lp, ep = stable_layout(d, code_p, seeds, cfg)
            lq, eq = stable_layout(d, code_q, seeds, cfg)
            if lp is None or lq is None:
                bad = ep or eq
                res.inconc("analysis:%s" % bad.get("class"))
                continue
            res.count("mode:renumber:%s" % how)
            res.nontriv(common.sha([case["code_p"], case["sigma"]]))
            judge_renumber(res, case, lp, lq, sigma, how)
    d.stop()
    return res.to_dict()


def run(tier, seed, t0):
    keccak.slot_hash_table()
    res = common.Result.merge(common.run_sharded(shard, seed, tier))
    return common.finish(
        PROP, tier, seed, res, "exploration",
        "pairs of fragments over disjoint slot sets (ground-truth idioms, or 1-3 pieces of mixed evidence per slot, including the other fragment's slot numbers used as plain constants: words of 3-4 word hashes, mapping keys, values, memory offsets) "
        "analysed alone and together behind a dispatcher (compare chain / binary split / fall-through default, branches "
        "interleaved in random order); programs and their images under injective slot renumberings (small to small, "
        "small to 2^16..2^64, small to > 2^130: PUSH widths and all offsets change). Each program under 3 hash seeds "
        "plus 4 forced unification fold orders; a third of the cases under a value-size limit of 3..30 (opaque "
        "replacement values everywhere); slots unstable across those runs are excluded (C02). distinct = distinct program pair / (program, renumbering)",
        t0, ["cases in which any run hits the visit or fork limit, or fails, are discarded (counted as inconclusive)",
             "layout comparison ignores conflict explanations"], min_judged=50)


def replay(path):
    case = json.load(open(path))["case"]
    res = common.Result()
    d = common.Driver("rel", shim=True)
    cfg = case.get("cfg") or {}
    st = {}
    for k in ("code_a", "code_b", "code_d", "code_p", "code_q"):
        if k in case:
            st[k], err = stable_layout(d, bytes.fromhex(case[k]), case["seeds"], cfg)
            print(k, st[k] if st[k] is not None else err)
    d.stop()
    if any(v is None for v in st.values()):
        print("inconclusive: an analysis failed")
        return 0
    if case["mode"] == "union":
        judge_union(res, case, st["code_a"], st["code_b"], st["code_d"], set(case["slots_a"]), set(case["slots_b"]))
    else:
        sigma = {int(k, 16): int(v, 16) for k, v in case["sigma"].items()}
        judge_renumber(res, case, st["code_p"], st["code_q"], sigma, case.get("how"))
    for v in res.violations:
        print("VIOLATION-REPLAY", v["signature"], v["what"])
    return 1 if res.violations else 0
