"""C12 - returned layouts are ordered and every entry lies inside its 256-bit slot.

Monitor: a pure function of the layout returned at the API boundary, applied to every successful analysis of a mixed
workload (mask-and-shift code with hostile shift amounts, ground-truth layouts, look-alike hashing, read-mask-write
programs, mutated real contracts).
"""
import glob
import json
import os

from vlib import common, keccak, layoutgen, progs
from checks.c04 import width_bits

PROP = "C12"
PROFILES = ("rel",)
BUDGET = 6_000_000


def struct_problem(t, base):
    """Recursively checks struct elements: each element must start and (when its width is known) end inside."""
    if isinstance(t, dict) and "struct" in t:
        for el in t["struct"]["elements"]:
            off = el["offset"]
            if base + off >= 256:
                return "struct-element-starts-outside", "element at bit %d of a struct placed at bit %d" % (off, base)
            w = width_bits(el["type"])
            if w is not None and base + off + w > 256:
                return "struct-element-ends-outside", "element at bit %d+%d, %d bits wide" % (base, off, w)
            p = struct_problem(el["type"], base + off)
            if p:
                return p
    return None


def check_layout(layout):
    prev = None
    for e in layout:
        key = (int(e["index"], 16), e["offset"])
        if prev is not None and key < prev:
            return "unsorted", "entry %s after %s" % (key, prev)
        prev = key
        if e["offset"] >= 256:
            return "entry-starts-outside-slot", "slot %s: entry at bit offset %d" % (hex(key[0]), e["offset"])
        w = width_bits(e["type"])
        if w is not None and e["offset"] + w > 256:
            return "entry-ends-outside-slot", "slot %s: entry at bit %d is %d bits wide (%s)" % (
                hex(key[0]), e["offset"], w, json.dumps(e["type"]))
        p = struct_problem(e["type"], e["offset"])
        if p:
            return p
    return None


def judge(res, code, feats, r):
    res.evaluations += 1
    case = {"code": code.hex()}
    cls = r.get("class")
    if cls in ("timeout", "oom", "harness_error", "crash"):
        res.inconc("driver:%s" % cls)
        return
    if cls == "panic":
        res.inconc("panic (C01): %s:%s" % (r.get("file", "?").split("/")[-1], r.get("line")))
        return
    if cls != "ok":
        res.inconc("analysis-error:%s" % ",".join(sorted({e["kind"] for e in r.get("errors", [])})))
        return
    res.judged += 1
    layout = r["layout"]
    res.count("entries", len(layout))
    for f in feats:
        res.count("feat:" + f)
    if len(layout) >= 2 or any(e["offset"] for e in layout):
        res.nontriv(common.sha(code.hex()))
    if any(e["offset"] for e in layout):
        res.count("layouts_with_sub_slot_entries")
    bad = check_layout(layout)
    if bad:
        sig = "c12:%s" % bad[0]
        # nested packed offsets accumulating through a cyclic (infinite) type: the recorded finding
        slot_hex = bad[1].split(":")[0].replace("slot ", "").strip()
        same_slot = [e for e in layout if int(e["index"], 16) == int(slot_hex, 16)] if slot_hex.startswith("0x") else []
        if any("infinite_type" in json.dumps(e["type"]) for e in same_slot):
            sig += ":slot-has-infinite-type"
        elif any("infinite_type" in json.dumps(e["type"]) for e in layout):
            # the cycle runs through several slots: the offsets accumulate in one slot, the cut shows in another
            sig += ":layout-has-infinite-type"
        res.violation(sig, bad[1], case)


def shard(shard_no, nshards, seed, tier, extra):
    res = common.Result()
    rng = common.rng_for(seed, "c12", shard_no)
    table = keccak.slot_hash_table()
    items = sorted(table.items())[:200]
    n = 300 if tier == "quick" else 16000
    d = common.Driver("rel", shim=False)
    corpus = sorted(glob.glob(os.path.join(common.VERIF, "corpus", "*.hex")))
    small = [p for p in corpus if os.path.getsize(p) < 8000]
    contracts = common.corpus_codes(4000 if tier == "quick" else None)
    for ci, (name, code) in enumerate(contracts):
        if ci % nshards != shard_no:
            continue
        resp = d.call({"op": "analyze", "code": code.hex(), "stage": "analyze", "cfg": {"permissive": True},
                       "wd": {"every": 100, "stop_at": 200000}}, timeout=600)
        judge(res, code, {"real-contract"}, resp)
        res.count("real_contracts")
    for i in range(n):
        r = rng.random()
        if r < 0.15:
            code, feats = progs.typed_widths(rng)
        elif r < 0.55:
            code, feats = progs.mask_shift(rng)
        elif r < 0.7:
            gt = layoutgen.random_ground_truth(rng, nvars=rng.randint(1, 6))
            code, feats = layoutgen.build(gt, rng), {"layoutgen"}
        elif r < 0.8:
            code, info = progs.lookalike(rng, items, with_storage=True, allow_value_side=True)
            feats = {"lookalike"}
        elif r < 0.93:
            code, feats = progs.read_mask_write(rng)
        else:
            base = bytearray(bytes.fromhex(open(rng.choice(small)).read().strip()))
            for _ in range(rng.randint(1, 4)):
                base[rng.randrange(len(base))] = rng.getrandbits(8)
            code, feats = bytes(base), {"mutated-contract"}
        resp = d.call({"op": "analyze", "code": code.hex(), "stage": "analyze", "cfg": {"permissive": True},
                       "wd": {"every": 1, "stop_at": BUDGET}}, timeout=300)
        judge(res, code, feats, resp)
        if i < 2:
            res.sample({"code": code.hex(), "layout": resp.get("layout")})
    d.stop()
    return res.to_dict()


def run(tier, seed, t0):
    keccak.slot_hash_table()
    res = common.Result.merge(common.run_sharded(shard, seed, tier))
    return common.finish(
        PROP, tier, seed, res, "exploration",
        "mask-and-shift code over a few slots (SHR/SAR/SHL/DIV then AND, AND with shifted masks, read-modify-write with "
        "MUL 2^k or SHL, nested ORs) with shift amounts from {0..255, 256, 257, 300, 511, 2^16, 2^64-1, 2^64, 2^255, "
        "2^256-1} and mask widths 1..256 bits; ground-truth layouts; look-alike hashing; read-mask-write programs; "
        "byte-mutated real contracts; whole-word values whose width comes from a constant (SIGNEXTEND size in either "
        "operand position, *COPY lengths, BYTE index, masks; constants 0..2^256-1) stored directly or as mapping / "
        "array elements. distinct = bytecode; non-trivial = layout with >= 2 entries or a sub-slot entry",
        t0, ["widths are taken from the reported type (bytesN, uintN, address, bool, ...); unknown widths are not judged"],
        min_judged=100)


def replay(path):
    case = json.load(open(path))["case"]
    res = common.Result()
    d = common.Driver("rel", shim=False)
    code = bytes.fromhex(case["code"])
    resp = d.call({"op": "analyze", "code": code.hex(), "stage": "analyze", "cfg": {"permissive": True},
                   "wd": {"every": 1, "stop_at": BUDGET}}, timeout=300)
    d.stop()
    judge(res, code, set(), resp)
    print(json.dumps(resp.get("layout"))[:800])
    for v in res.violations:
        print("VIOLATION-REPLAY", v["signature"], v["what"])
    return 1 if res.violations else 0
