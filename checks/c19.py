"""C19 - the union-find forest and the vector map match their abstract models.

Monitor: lock-step reference models inside the driver (harness/src/ds.rs): after every operation of a history a clone
of the real structure is interrogated through its public API and compared with a naive partition / BTreeMap. Histories
are enumerated exhaustively (DFS over all operation sequences) and sampled randomly; both build profiles.
"""
import json
import time

from vlib import common

PROP = "C19"
PROFILES = ("rel", "dev")


def plan(tier):
    if tier == "quick":
        return {"ds_len": 4, "vm_len": 7, "rand_count": 400, "rand_len": 400}
    return {"ds_len": 5, "vm_len": 9, "rand_count": 6000, "rand_len": 400}


def shard(shard_no, nshards, seed, tier, extra):
    p = plan(tier)
    res = common.Result()
    for profile in PROFILES:
        d = common.Driver(profile, shim=False)
        reqs = [
            # every history over the full operation set (payloads: one tag, two tags, the identity) up to length 4 ...
            ("ds-exh", {"op": "ds", "target": "ds", "mode": "exhaustive", "universe": 4, "len": 4,
                        "shard": shard_no, "shards": nshards}),
            ("ds-rand", {"op": "ds", "target": "ds", "mode": "random", "universe": 64, "len": p["rand_len"],
                         "count": p["rand_count"] // nshards + 1, "seed": seed ^ (shard_no * 7919 + 1)}),
            ("ds-rand-small", {"op": "ds", "target": "ds", "mode": "random", "universe": 6, "len": 40,
                               "count": p["rand_count"] // nshards + 1, "seed": seed ^ (shard_no * 104729 + 3)}),
            ("vm-rand", {"op": "ds", "target": "vmap", "mode": "random", "universe": 64, "len": p["rand_len"],
                         "count": p["rand_count"] // nshards + 1, "seed": seed ^ (shard_no * 31337 + 2)}),
        ]
        if p["ds_len"] > 4:
            # ... and, in the thorough tier, up to length 5 over the one-tag payloads only (37 instead of 49 operations)
            reqs.append(("ds-exh-long", {"op": "ds", "target": "ds", "mode": "exhaustive", "universe": 4, "len": p["ds_len"],
                                         "extended": False, "shard": shard_no, "shards": nshards}))
        if shard_no == 0:
            reqs.append(("vm-exh", {"op": "ds", "target": "vmap", "mode": "exhaustive", "universe": 4,
                                    "len": p["vm_len"]}))
        if shard_no in (1, 2, 3, 4):
            # the same exhaustive enumeration starting from with_capacity(0 / 1 / 2 / 1000)
            reqs.append(("vm-exh-cap", {"op": "ds", "target": "vmap", "mode": "exhaustive", "universe": 4,
                                        "len": p["vm_len"], "capacity": [0, 1, 2, 1000][shard_no - 1]}))
        if shard_no in (6, 7):
            # the payload monoids (HashSet, Option<..>) against their tables and laws, and a forest carrying an Option
            # payload against a naive model
            reqs.append(("combine", {"op": "ds", "target": "combine", "mode": "laws", "universe": 5, "len": 30,
                                     "count": 400, "seed": seed ^ (shard_no * 13 + 5)}))
        if shard_no == 5:
            # sparse keys: long gaps between occupied indices
            reqs.append(("vm-rand-sparse", {"op": "ds", "target": "vmap", "mode": "random", "universe": 3000, "len": 30,
                                            "count": 30, "seed": seed ^ 77}))
        for name, req in reqs:
            r = d.call(req, timeout=3000)
            cls = r.get("class")
            if cls in ("timeout", "oom"):
                res.inconc("%s:%s" % (name, cls))
                continue
            if cls != "ok":
                res.violation("driver:%s:%s" % (name, cls), json.dumps(r)[:400], {"request": req, "profile": profile})
                continue
            res.evaluations += r["histories"]
            res.judged += r["histories"]
            res.count("ops_checked", r["ops_checked"])
            res.count("histories:%s:%s" % (name, profile), r["histories"])
            res.count("max_distinct_states:%s" % name, r["distinct_states"])
            for s in r["sample_states"]:
                res.nontriv("%s:%s" % (name, s))
            # distinct model states reached stand in for distinct non-trivial histories
            res.count("distinct_states_seen:%s:%s" % (name, profile), r["distinct_states"])
            res.sample({"workload": name, "profile": profile, "request": req, "states_reached": r["sample_states"][:3]},
                       cap=4)
            for v in r["violations"]:
                res.violation(v["signature"], v["witness"]["what"],
                              {"workload": name, "profile": profile, "history": v["witness"].get("history"), "request": req},
                              count=v["count"])
        d.stop()
    return res.to_dict()


def miri_requests(shard_no, nshards, seed):
    # sized for ~4 minutes per shard under Miri (about 1000x slower than native)
    reqs = [{"op": "ds", "target": "ds", "mode": "exhaustive", "universe": 2, "len": 3, "shard": shard_no, "shards": nshards},
            {"op": "ds", "target": "ds", "mode": "random", "universe": 8, "len": 30, "count": 5, "seed": seed ^ (shard_no + 11)},
            {"op": "ds", "target": "vmap", "mode": "random", "universe": 8, "len": 40, "count": 6, "seed": seed ^ (shard_no + 29)}]
    if shard_no == 0:
        reqs.append({"op": "ds", "target": "vmap", "mode": "exhaustive", "universe": 3, "len": 3})
    if shard_no == 1:
        reqs.append({"op": "ds", "target": "ds", "mode": "exhaustive", "universe": 3, "len": 2})
    return reqs


def run(tier, seed, t0):
    results = common.run_sharded(shard, seed, tier)
    res = common.Result.merge(results)
    if tier == "thorough":
        from vlib import sanitize
        m = sanitize.miri_layer(PROP, miri_requests, seed, tier)
        res = common.Result.merge([res.to_dict(), m.to_dict()])
    # distinct_nontrivial: number of distinct model states reached, as measured inside the driver (per workload the
    # largest count any shard reported; shards explore disjoint prefixes, so this is a lower bound on the union)
    distinct = sum(v for k, v in res.counters.items() if k.startswith("max_distinct_states:"))
    p = plan(tier)
    return common.finish(
        PROP, tier, seed, res, "exploration",
        "all operation sequences of length <= %d over a 4-element universe for the union-find forest (37 operations) "
        "and of length <= %d for the vector map (8 operations), plus random histories up to length %d over 64 "
        "elements; a case is non-trivial/distinct when it reaches a model state (partition+data, or map contents) not "
        "seen before - distinct_nontrivial counts those states as measured in the driver" % (
            p["ds_len"], p["vm_len"], p["rand_len"]),
        t0,
        ["the naive models (Vec<BTreeSet>, BTreeMap) are right", "touching a never-inserted element inserts it",
         "get_data None is equivalent to empty data"],
        min_judged=1000, exhaustive=True, distinct_measured=distinct)


def replay(path):
    case = json.load(open(path))["case"]
    d = common.Driver(case.get("profile", "rel"), shim=False)
    r = d.call(case["request"], timeout=3000)
    d.stop()
    print(json.dumps(r)[:2000])
    return 1 if r.get("violations") or r.get("class") != "ok" else 0
