"""C18 - symbolic values stay within the size limit and report their true size.

Monitor (inside the driver, harness/src/analyze.rs::sizes_obs): every value held on a stack, in memory, in storage
generations or in the recorded / logged lists of every stored state is walked through `children()`; at every node the
memoised `size()` must equal 1 + the sum of the children's counts, and the node count of each such value (they are the
ones produced by instructions) must not exceed `value_size_limit`. The same size = count walk is applied to every
exported value, to every value after `constant_fold` and to every value after `TypeChecker::lift`.
"""
import json

from vlib import common, evm, keccak, progs

PROP = "C18"
PROFILES = ("rel",)


def judge(res, code, cfg, feats, r):
    res.evaluations += 1
    case = {"code": code.hex(), "cfg": cfg}
    cls = r.get("class")
    if cls in ("timeout", "oom", "harness_error", "crash", "panic"):
        res.inconc("driver:%s" % cls)
        return
    sz = r.get("sizes")
    if not sz:
        res.inconc("no-sizes")
        return
    res.judged += 1
    res.count("values", sz["values"])
    res.count("nodes", sz["nodes"])
    res.count("folded_nodes", sz["folded_nodes"])
    res.count("lifted_nodes", sz["lifted_nodes"])
    biggest = max(sz["max_by_kind"].values()) if sz["max_by_kind"] else 0
    res.counters["max_value_nodes"] = max(res.counters.get("max_value_nodes", 0), biggest)
    if biggest * 2 > cfg["vsize"]:
        res.count("runs_near_the_limit")
        res.nontriv(common.sha(code.hex() + json.dumps(cfg, sort_keys=True)))
    for f in feats:
        res.count("feat:" + f)
    # freshness of replacements: every culling event (hook) must introduce an identity no earlier event introduced
    mon = r.get("mon") or {}
    res.count("culling_events", mon.get("culled", 0))
    if mon.get("culled_dups"):
        idv, ip1, ip2 = mon["culled_dups"][0]
        res.violation("c18:culled-value-not-fresh:%s" % ("same-ip" if ip1 == ip2 else "different-ip"),
                      "two over-large results (built at %d and at %d) were replaced by the same opaque value %s (%d such "
                      "repeats)" % (ip1, ip2, idv, len(mon["culled_dups"])), case)
        return
    if mon.get("culled_under"):
        ip, nodes, limit = mon["culled_under"][0]
        res.violation("c18:culled-below-limit", "a %d-node result at %d was replaced although the limit is %d" % (nodes, ip, limit), case)
        return
    for where, key in (("value", "mismatches"), ("after-fold", "fold_mismatches"), ("after-lift", "lift_mismatches")):
        if sz[key]:
            m = sz[key][0]
            direction = "reports-more" if m["reported"] > m["actual"] else "reports-less"
            res.violation("c18:size-mismatch:%s:%s:%s" % (where, m["kind"], direction),
                          "a %s node reports size %d but contains %d nodes" % (m["kind"], m["reported"], m["actual"]), case)
            return
    if sz["over_limit"]:
        o = sz["over_limit"][0]
        factor = "limit+1" if o["count"] == sz["limit"] + 1 else ("<=2x+2" if o["count"] <= 2 * sz["limit"] + 2 else ">2x+2")
        res.violation("c18:over-limit:%s:%s" % (o["kind"], factor),
                      "a %s value held in %s has %d nodes, limit %d (%d such values)" % (
                          o["kind"], o["where"], o["count"], sz["limit"], sz["over_limit_count"]), case)


def shard(shard_no, nshards, seed, tier, extra):
    res = common.Result()
    rng = common.rng_for(seed, "c18", shard_no)
    n = 420 if tier == "quick" else 20000
    d = common.Driver("rel", shim=False)
    B = evm.boundary_constants()
    items = sorted(keccak.slot_hash_table().items())[:400]
    for i in range(n):
        r = rng.random()
        pre_limit = None
        if r < 0.06:
            # leaves that lifting rewrites into trees: literal hashes of small slot numbers
            if rng.random() < 0.6:
                code, feats = progs.hash_constants(rng, items)
            else:
                code, _info = progs.lookalike(rng, items, with_storage=True, allow_value_side=True)
                feats = {"lookalike"}
        elif r < 0.15:
            pre_limit = rng.choice([1, 2, 3, 5, 8, 16, 50, 250])
            code, feats = progs.near_limit_operands(rng, pre_limit)
        elif r < 0.25:
            code, feats = progs.every_producer(rng)
        elif r < 0.6:
            code, feats = progs.growers(rng)
        elif r < 0.75:
            code, feats = progs.loopy(rng)
        elif r < 0.9:
            code, g = progs.straightline(rng, B)
            feats = {"straightline"}
        else:
            code, feats = progs.read_mask_write(rng)
        cfg = {"vsize": rng.choice([1, 2, 3, 5, 8, 16, 50, 250, 1000]), "iters": rng.randint(1, 12),
               "forks": rng.choice([1, 2, 5, 20]), "permissive": True}
        if pre_limit is not None:
            cfg["vsize"] = pre_limit
        if "shape:forkbomb" in feats or "shape:random" in feats or "shape:table" in feats:
            cfg["forks"] = rng.choice([1, 2, 3])
            cfg["iters"] = rng.randint(1, 4)
        resp = d.call({"op": "analyze", "code": code.hex(), "direct_vm": True, "observe": ["sizes"], "cfg": cfg,
                       "wd": {"every": 1, "stop_at": 3_000_000}}, timeout=300)
        judge(res, code, cfg, feats, resp)
        if i < 2:
            res.sample({"code": code.hex(), "cfg": cfg, "max_by_kind": resp.get("sizes", {}).get("max_by_kind")})
    d.stop()
    return res.to_dict()


def run(tier, seed, t0):
    res = common.Result.merge(common.run_sharded(shard, seed, tier))
    return common.finish(
        PROP, tier, seed, res, "exploration",
        "loops and straight-line code that repeatedly square, add, hash, mask, ADDMOD, EXP or SLOAD a running value "
        "(also through storage and memory), bulk copies followed by hashing, the C03 loop shapes, C07 straight-line "
        "programs and read-mask-write programs; a grown value (or a small constant) fed into every operand position of "
        "every operand-taking opcode, with MLOADs of whatever the opcode wrote to memory; literal keccak(n) constants "
        "(leaves that lifting turns into trees) alone, offset, combined, as keys and as values; x value size limit {1,2,3,5,8,16,50,250,1000} x iteration limit 1..12. "
        "distinct = (bytecode, config); non-trivial = some value reaches at least half the limit",
        t0, ["values 'produced by executing an instruction' are those held on stacks, in memory, in storage generations "
             "and in the recorded/logged lists; the StorageWrite wrappers made on export are only size-checked"],
        min_judged=100)


def replay(path):
    case = json.load(open(path))["case"]
    res = common.Result()
    d = common.Driver("rel", shim=False)
    code = bytes.fromhex(case["code"])
    resp = d.call({"op": "analyze", "code": code.hex(), "direct_vm": True, "observe": ["sizes"], "cfg": case["cfg"],
                   "wd": {"every": 1, "stop_at": 3_000_000}}, timeout=300)
    d.stop()
    judge(res, code, case["cfg"], set(), resp)
    print(json.dumps(resp.get("sizes"))[:1200])
    for v in res.violations:
        print("VIOLATION-REPLAY", v["signature"], v["what"])
    return 1 if res.violations else 0
