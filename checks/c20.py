"""C20 - layouts survive a JSON round trip with exact 256-bit slot indices.

Monitor: the driver generates layout entries from a seeded generator covering every AbiType variant, serialises them
with the library's serde implementation (compact, pretty, byte vector, lists of 7 entries), deserialises through four routes (from_str, from_value, from_reader,
from_slice), compares (library PartialEq, re-serialised text, index) and
also prints the index through ethnum's decimal Display - an independent code path. This module re-checks format and
value of every index in Python (arbitrary precision) and the JSON-level shape.
"""
import json
import re

from vlib import common

PROP = "C20"
PROFILES = ("rel",)
HEX = re.compile(r"^0x[0-9a-f]{64}$")
ALL_VARIANTS = {"any", "number", "uint", "int", "address", "selector", "function", "bool", "array", "bytes", "bits",
                "dyn_array", "dyn_bytes", "mapping", "struct", "infinite_type", "conflicted_type"}


def shard(shard_no, nshards, seed, tier, extra):
    n_batches, n = (8, 3000) if tier == "quick" else (200, 3000)
    res = common.Result()
    d = common.Driver("rel", shim=False)
    for b in range(n_batches):
        req = {"op": "json", "n": n, "depth": 5, "seed": (seed ^ (shard_no * 1000003 + b * 7 + 1)) & (2**63 - 1),
               "full": True}
        r = d.call(req, timeout=600)
        if r.get("class") in ("timeout", "oom"):
            res.inconc(r["class"])
            continue
        if r.get("class") != "ok":
            res.violation("driver:%s:%s" % (r.get("class"), r.get("msg", "")[:60]), json.dumps(r)[:400], {"request": req})
            continue
        res.count("max_depth", 0)
        res.counters["max_depth"] = max(res.counters.get("max_depth", 0), r["max_depth"])
        for k, v in r["variants"].items():
            res.count("variant:" + k, v)
        for f in r["failures"]:
            sig = "roundtrip:%s" % f.get("stage")
            if f.get("stage") == "compare":
                sig += ":eq=%s:text=%s:index=%s" % (f.get("eq"), f.get("same_text"), f.get("index_back"))
            res.violation(sig, json.dumps(f)[:500], {"request": req, "entry": f})
        for e in r["entries"]:
            res.evaluations += 1
            text = e.get("text")
            try:
                obj = json.loads(text)
            except Exception as ex:
                res.violation("not-json", str(ex), {"request": req, "text": text})
                continue
            res.judged += 1
            ih = obj.get("index")
            if not isinstance(ih, str) or not HEX.match(ih):
                res.violation("index-format", "index rendered as %r" % (ih,), {"request": req, "text": text})
                continue
            if int(ih, 16) != int(e["index_dec"]):
                res.violation("index-value", "hex %s != decimal %s" % (ih, e["index_dec"]), {"request": req, "text": text})
            if obj.get("offset") != e["offset"] or "type" not in obj or set(obj.keys()) != {"index", "offset", "type"}:
                res.violation("shape", "unexpected JSON shape", {"request": req, "text": text})
            if not e.get("text2_equal", True):
                res.violation("reserialise", "second serialisation differs", {"request": req, "text": text})
            # non-trivial: a nested type, or an index with more than 64 significant bits
            if isinstance(obj["type"], dict) or int(ih, 16) >= 2**64:
                res.nontriv(text)
            res.sample({"entry": obj}, cap=5)
    d.stop()
    return res.to_dict()


def run(tier, seed, t0):
    res = common.Result.merge(common.run_sharded(shard, seed, tier))
    seen = {k.split(":", 1)[1] for k in res.counters if k.startswith("variant:")}
    if tier == "thorough" or res.evaluations > 20000:
        missing = ALL_VARIANTS - seen
        if missing:
            res.notes.append("variants never generated at top level: %s" % sorted(missing))
    return common.finish(
        PROP, tier, seed, res, "exploration",
        "seeded generator over every AbiType variant nested to depth <= 5 (conflict payloads with quotes, backslashes, "
        "unicode and NUL; struct offsets; usize::MAX sizes), slot indices from a boundary set (0, 1, 2^k, 2^k+-1, "
        "2^256-1, 64/128-bit and random words), offsets 0..255; distinct = distinct serialised text; non-trivial = "
        "nested type or index >= 2^64",
        t0, ["serde_json itself is correct", "Python int parsing is correct"], min_judged=1000,
        extra_cov={"variants_seen": sorted(seen)})


def replay(path):
    case = json.load(open(path))["case"]
    d = common.Driver("rel", shim=False)
    r = d.call(case["request"], timeout=600)
    d.stop()
    print(json.dumps(r.get("failures"))[:3000])
    return 1 if r.get("failures") or r.get("class") != "ok" else 0
