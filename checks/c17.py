"""C17 - strict mode surfaces every execution error; permissive mode tolerates bad jumps.

Monitor: two independent sources say what was *raised* while executing - hook events (every error returned by an
opcode, every error an opcode stored, every out-of-gas retirement) and the reference EVM's prediction for loop-free
programs. What is *observed* is the API boundary: the `Errors` returned by the one-call `analyze` in strict and in
permissive mode (same hash seed for both).
"""
import json

from vlib import common, evm, evmref, progs

PROP = "C17"
PROFILES = ("rel",)
JUMP_KINDS = {"InvalidOffsetForJump", "InvalidJumpTarget", "NonExistentJumpTarget", "NoConcreteJumpDestination"}


def kind_of(dbg):
    out = ""
    for ch in dbg:
        if ch.isalnum() or ch == "_":
            out += ch
        else:
            break
    return out


def raised_events(resp, gas_limit=30_000_000):
    mon = resp["mon"]
    ev = set()
    for ip, err, recorded in mon["op_errors"]:
        ev.add((ip, kind_of(err)))
    for ip, err in mon["stored_errors"]:
        ev.add((ip, kind_of(err)))
    for ip in mon["oog_at"]:
        ev.add((ip, "GasLimitExceeded"))
    # observed state rather than the VM's own decision: a thread retired with more gas consumed than the limit
    for ip, gas in mon.get("retire_gas", []):
        if gas > gas_limit:
            ev.add((ip, "GasLimitExceeded"))
    # and by the monitor's own opcode-level books: a path that went on executing after the instruction at `ip` had taken
    # its declared minimum cost over the limit was due a gas error located there
    for ip in mon.get("oog_expected", []):
        ev.add((ip, "GasLimitExceeded"))
    return ev


def gas_overrun(resp, gas_limit):
    """By the monitor's own opcode-level books (declared minimum cost of every executed instruction, summed per path
    and inherited at forks): did some path execute an instruction after consuming more than the limit? Then a
    GasLimitExceeded was due, wherever exactly the VM would have located it."""
    mon = resp["mon"]
    return mon.get("max_opgas_before", 0) > gas_limit, mon.get("max_opgas_before", 0), mon.get("max_opgas_at")


def returned(resp):
    if resp.get("class") != "err":
        return set(), []
    errs = resp.get("errors", [])
    return {(e["location"], e["kind"]) for e in errs if e["stage"] == "Execution"}, errs


def judge(res, code, feats, cfg, strict, perm):
    res.evaluations += 1
    case = {"code": code.hex(), "cfg": cfg}
    for r in (strict, perm):
        if r.get("class") in ("timeout", "oom", "harness_error", "crash", "panic"):
            res.inconc("driver:%s" % r.get("class"))
            return
    paths, complete = evmref.enumerate_paths(code, max_paths=512, max_steps=20000)
    predicted = set()
    low_gas = cfg.get("gas", 30_000_000) < 1_000_000
    # the reference speaks for the library only where the library's own bounds cannot cut a path short: default
    # visit / fork limits, and no instruction executed twice on the path
    if complete and not low_gas and "iters" not in cfg and "forks" not in cfg:
        predicted = {p.error for p in paths if p.error and len(set(p.executed)) == len(p.executed)}
    res.judged += 1
    gl = cfg.get("gas", 30_000_000)
    ev_s, ev_p = raised_events(strict, gl), raised_events(perm, gl)
    ret_s, errs_s = returned(strict)
    ret_p, errs_p = returned(perm)
    kinds_seen = {k for _, k in ev_s | predicted}
    for k in kinds_seen:
        res.count("raised:" + k)
    for f in feats:
        res.count("feat:" + f)
    if kinds_seen:
        res.nontriv(code.hex() + json.dumps(cfg, sort_keys=True))
    n = len(code)
    # ---- strict
    raised_s = ev_s | predicted
    missing = sorted(raised_s - ret_s)
    if missing:
        src = "event" if (missing[0] in ev_s) else "reference"
        res.violation("c17:strict:raised-not-listed:%s:%s" % (missing[0][1], src),
                      "strict mode: raised %s but returned %s (class %s)" % (missing[:5], sorted(ret_s)[:8], strict.get("class")),
                      case)
        return
    over, used, at = gas_overrun(strict, gl)
    if over and not any(k == "GasLimitExceeded" for _, k in ret_s):
        res.violation("c17:strict:raised-not-listed:GasLimitExceeded:opcode-accounting",
                      "a path had consumed %d gas (declared minimum costs, limit %d) when it executed the instruction at %s, "
                      "yet no GasLimitExceeded is listed (returned %s, class %s)" % (used, gl, at, sorted(ret_s)[:6], strict.get("class")), case)
        return
    over_p, used_p, at_p = gas_overrun(perm, gl)
    if over_p and not any(k == "GasLimitExceeded" for _, k in ret_p):
        res.violation("c17:permissive:non-jump-error-swallowed:GasLimitExceeded:opcode-accounting",
                      "permissive mode: a path had consumed %d gas (limit %d) at %s, yet no GasLimitExceeded is listed" % (used_p, gl, at_p), case)
        return
    bad_loc = [e for e in errs_s if e["location"] >= n]
    if bad_loc:
        res.violation("c17:strict:location-outside-code:%s" % bad_loc[0]["kind"],
                      "error located at %d in %d bytes of code" % (bad_loc[0]["location"], n), case)
        return
    if raised_s and strict.get("class") != "err":
        res.violation("c17:strict:ok-despite-errors", "raised %s but analysis succeeded" % sorted(raised_s)[:5], case)
        return
    # ---- permissive
    raised_p = ev_p | predicted
    nonjump = {e for e in raised_p if e[1] not in JUMP_KINDS}
    exec_errs_p = [e for e in errs_p if e["stage"] == "Execution"]
    if not nonjump and exec_errs_p:
        k = exec_errs_p[0]["kind"]
        # where was it raised: by JUMP (opcode error) or by JUMPI (stored)?
        via = "JUMPI" if any(ip == exec_errs_p[0]["location"] for ip, _ in perm["mon"]["stored_errors"]) else "other"
        res.violation("c17:permissive:fails-on-jump-error:%s:via-%s" % (k, via),
                      "permissive mode: only jump-target errors were raised (%s) yet the analysis failed with %s" % (
                          sorted(raised_p)[:5], [(e["location"], e["kind"]) for e in exec_errs_p][:5]), case)
        return
    miss_p = sorted(nonjump - ret_p)
    if miss_p:
        res.violation("c17:permissive:non-jump-error-swallowed:%s" % miss_p[0][1],
                      "permissive mode: raised %s but returned %s (class %s)" % (miss_p[:5], sorted(ret_p)[:8], perm.get("class")), case)
        return
    # ---- agreement
    if strict.get("class") == "ok":
        if perm.get("class") != "ok":
            res.violation("c17:strict-ok-permissive-fails", "strict succeeded, permissive: %s" % json.dumps(perm.get("errors"))[:200], case)
            return
        if json.dumps(strict.get("layout"), sort_keys=True) != json.dumps(perm.get("layout"), sort_keys=True):
            res.violation("c17:strict-ok-layout-differs", "layouts differ between modes", case)
            return
        res.count("strict_ok_pairs")


def shard(shard_no, nshards, seed, tier, extra):
    res = common.Result()
    rng = common.rng_for(seed, "c17", shard_no)
    n = 600 if tier == "quick" else 25000
    d = common.Driver("rel", shim=True)
    for i in range(n):
        r = rng.random()
        if r < 0.03:
            code, feats = progs.full_stack(rng)
        elif r < 0.06:
            code, feats = progs.error_storm(rng)
        elif r < 0.12:
            code, feats = progs.shared_fault(rng)
        elif r < 0.6:
            code, feats, _ = progs.controlflow(rng, underflow_p=0.15, symbolic_p=0.2,
                                               big_stack_p=0.06 if rng.random() < 0.3 else 0.0)
        elif r < 0.8:
            code, g = progs.straightline(rng, evm.boundary_constants())
            feats = {"straightline"} | g.features
        else:
            # mutate: random truncation / byte flips of a generated program give odd mixes of errors
            code, feats, _ = progs.controlflow(rng, underflow_p=0.3, symbolic_p=0.3)
            b = bytearray(code)
            for _ in range(rng.randint(1, 3)):
                b[rng.randrange(len(b))] = rng.choice([0x56, 0x57, 0x5b, 0x01, 0x50, 0x80, 0x90, 0x35, rng.getrandbits(8)])
            code = bytes(b)
            feats = set(feats) | {"mutated"}
        cfg = {}
        if rng.random() < 0.25:
            cfg["gas"] = rng.choice([1, 3, 10, 50, 100, 200, 500, 2500, 5500, 20000])
            feats = set(feats) | {"low-gas"}
        if rng.random() < 0.2:
            cfg["iters"] = rng.randint(1, 4)
            cfg["forks"] = rng.randint(1, 4)
        hseed = rng.getrandbits(48)
        reqs = []
        for permissive in (False, True):
            c = dict(cfg)
            c["permissive"] = permissive
            c["vsize"] = 100_000_000   # no value is replaced by an opaque one (that would turn a constant jump target symbolic)
            reqs.append({"op": "analyze", "code": code.hex(), "stage": "analyze", "cfg": c, "rand_seed": hseed})
        strict = d.call(reqs[0], timeout=120)
        perm = d.call(reqs[1], timeout=120)
        judge(res, code, feats, cfg, strict, perm)
        if i < 2:
            res.sample({"code": code.hex(), "cfg": cfg, "features": sorted(feats),
                        "strict_errors": strict.get("errors"), "permissive_class": perm.get("class")})
    d.stop()
    return res.to_dict()


def run(tier, seed, t0):
    res = common.Result.merge(common.run_sharded(shard, seed, tier))
    return common.finish(
        PROP, tier, seed, res, "exploration",
        "programs mixing JUMP/JUMPI to non-JUMPDEST, out-of-range, in-push-data, >=2^32 and symbolic targets, stack "
        "underflow at 14 different opcodes, stack overflow (1023-1030 pushes), gas limits from 1 to 20000, byte-mutated "
        "variants; several paths converging on one faulting JUMP / JUMPI / under-supplied instruction with different "
        "operands per path; each analysed by the one-call entry point in strict and permissive mode with the same hash seed. "
        "distinct = (bytecode, config); non-trivial = at least one error raised",
        t0, ["an error is 'raised' when an opcode returns it, an opcode stores it, or a thread is retired out of gas "
             "(hook events), or the reference EVM predicts it for a loop-free program",
             "JUMP to a symbolic target ends the path silently by design (not an error)"], min_judged=200)


def replay(path):
    case = json.load(open(path))["case"]
    res = common.Result()
    code = bytes.fromhex(case["code"])
    d = common.Driver("rel", shim=True)
    out = []
    for permissive in (False, True):
        c = dict(case["cfg"])
        c["permissive"] = permissive
        c["vsize"] = 100_000_000
        out.append(d.call({"op": "analyze", "code": code.hex(), "stage": "analyze", "cfg": c, "rand_seed": 7}))
    d.stop()
    judge(res, code, set(), case["cfg"], out[0], out[1])
    for v in res.violations:
        print("VIOLATION-REPLAY", v["signature"], v["what"])
    return 1 if res.violations else 0
