"""C04 - standard storage idioms are recovered with the right slot, kind and packing.

Monitor: ground-truth layouts are compiled to bytecode in the idioms the lifting passes document (vlib/layoutgen.py),
analysed by the real one-call entry point under two different hash seeds and two forced unification fold orders, and the reported layout is compared with the
ground truth - only on what the property states: an entry at the slot, its kind, mapping nesting depth, 20-byte-ness of
masked keys/values, packed bit offsets and known widths.
"""
import json

from vlib import common, layoutgen

PROP = "C04"
PROFILES = ("rel",)
BUDGET = 4_000_000


def width_bits(t):
    if isinstance(t, str):
        return {"address": 160, "bool": 8, "selector": 32, "function": 192}.get(t)
    if isinstance(t, dict) and len(t) == 1:
        k, v = next(iter(t.items()))
        if k == "bytes" and v.get("length") is not None:
            return 8 * v["length"]
        if k in ("uint", "int", "number") and v.get("size") is not None:
            return v["size"]
        if k == "bits" and v.get("length") is not None:
            return v["length"]
    return None


def kind_of(t):
    if isinstance(t, str):
        return t
    if isinstance(t, dict) and len(t) == 1:
        return next(iter(t))
    return "?"


def is_20_bytes(t):
    return width_bits(t) == 160


def mapping_depth(t):
    d = 0
    keys = []
    while kind_of(t) == "mapping":
        d += 1
        keys.append(t["mapping"]["key_type"])
        t = t["mapping"]["value_type"]
    return d, keys, t


def check_var(var, entries):
    """entries: layout entries at var's slot. Returns None or a (signature-suffix, description)."""
    kind = var["kind"]
    at0 = [e for e in entries if e["offset"] == 0]
    if not entries:
        return "%s:no-entry" % kind, "no entry at slot %d" % var["slot"]
    if kind == "word":
        if not at0:
            return "word:no-entry-at-offset-0", "entries %s" % entries
        return None
    if kind == "addr":
        if not any(is_20_bytes(e["type"]) for e in at0):
            return "addr:not-20-bytes", "types at offset 0: %s" % [e["type"] for e in at0]
        return None
    if kind == "dynarray":
        if not any(kind_of(e["type"]) == "dyn_array" for e in at0):
            return "dynarray:not-dyn-array:%s" % ",".join(sorted({kind_of(e["type"]) for e in entries})), "types: %s" % [e["type"] for e in entries]
        return None
    if kind == "mapping":
        maps = [e for e in at0 if kind_of(e["type"]) == "mapping"]
        if not maps:
            return "mapping:not-mapping:%s" % ",".join(sorted({kind_of(e["type"]) for e in entries})), "types: %s" % [e["type"] for e in entries]
        d, keys, val = mapping_depth(maps[0]["type"])
        if d != len(var["keys"]):
            return "mapping:depth-%d-reported-%d" % (len(var["keys"]), d), json.dumps(maps[0]["type"])[:300]
        for i, (k, kt) in enumerate(zip(var["keys"], keys)):
            if k == "addr" and not is_20_bytes(kt):
                return "mapping:addr-key-not-20-bytes", "key %d reported as %s" % (i, json.dumps(kt))
        if var["value"] == "addr" and not is_20_bytes(val):
            return "mapping:addr-value-not-20-bytes", "value reported as %s" % json.dumps(val)
        return None
    if kind == "packed":
        boundaries = {8 * off for off, _ in var["fields"]} | {256}
        for off, width in var["fields"]:
            here = [e for e in entries if e["offset"] == 8 * off]
            if not here:
                return "packed:field-missing", "no entry at bit %d (fields %s, reported offsets %s)" % (
                    8 * off, var["fields"], sorted(e["offset"] for e in entries))
            ws = [width_bits(e["type"]) for e in here]
            if not any(w is None or w == 8 * width for w in ws):
                return "packed:wrong-width", "field at bit %d is %d bits wide, reported %s" % (8 * off, 8 * width, ws)
        for e in entries:
            if e["offset"] not in boundaries:
                return "packed:entry-off-boundary", "entry at bit %d is not a field boundary of %s" % (e["offset"], var["fields"])
        return None
    return None


def strip_public(gt):
    return [{k: v for k, v in var.items() if not k.startswith("_")} for var in gt]


def judge(res, gt, code, r1, r2, more=()):
    res.evaluations += 1
    case = {"ground_truth": strip_public(gt), "modes": [v.get("_mode") for v in gt], "code": code.hex()}
    for r in (r1, r2) + tuple(more):
        if r.get("class") in ("timeout", "oom", "harness_error", "crash", "panic"):
            res.inconc("driver:%s" % r.get("class"))
            return
    if any(r.get("class") != "ok" for r in (r1, r2) + tuple(more)):
        kinds = sorted({e["kind"] for r in (r1, r2) + tuple(more) for e in r.get("errors", [])})
        if "StoppedByWatchdog" in kinds:
            res.inconc("analysis-stopped-by-budget (C03)")
        else:
            res.inconc("analysis-error:%s" % ",".join(kinds))
        return
    res.judged += 1
    for var in gt:
        res.count("var:%s:%s" % (var["kind"], var.get("_mode")))
    if len(gt) >= 2:
        res.nontriv(common.sha(case["ground_truth"]) + "".join(case["modes"]))
    l1 = {}
    for e in r1["layout"]:
        l1.setdefault(int(e["index"], 16), []).append(e)
    l2 = {}
    for e in r2["layout"]:
        l2.setdefault(int(e["index"], 16), []).append(e)
    others = []
    for r in more:
        lx = {}
        for e in r["layout"]:
            lx.setdefault(int(e["index"], 16), []).append(e)
        others.append(lx)
    for var in gt:
        s = var["slot"]
        a, b = l1.get(s, []), l2.get(s, [])
        views = {json.dumps(x, sort_keys=True) for x in [a, b] + [o.get(s, []) for o in others]}
        if len(views) > 1:
            res.count("slots_unstable_across_hash_seeds (C02)")
            continue
        bad = check_var(var, a)
        if bad:
            sig = "c04:%s:mode-%s" % (bad[0], var.get("_mode"))
            # the one recorded shape: the value written into the bit-0 field is itself taken out of a wider word
            # ((x >> j) & m, not multiplied into place because its place is bit 0)
            if var["kind"] == "packed" and var.get("src_shift") and var["fields"][0][0] == 0 \
                    and var["src_shift"] + 8 * var["fields"][0][1] <= 256 and var.get("_mode") in ("w", "rw"):
                sig += ":bit0-field-from-shifted-source"
            res.violation(sig, "slot %d: %s" % (s, bad[1]), dict(case, slot=s))
        else:
            res.count("vars_recovered")
            res.count("recovered:%s" % var["kind"])


def shard(shard_no, nshards, seed, tier, extra):
    res = common.Result()
    rng = common.rng_for(seed, "c04", shard_no)
    n = 160 if tier == "quick" else 8000
    d = common.Driver("rel", shim=True)
    for i in range(n):
        if rng.random() < 0.1:
            pool = layoutgen.aliasing_pool(rng)     # slot numbers that agree in their low or high bits
            gt = layoutgen.random_ground_truth(rng, nvars=rng.randint(2, min(8, len(pool))), slot_pool=pool)
        else:
            gt = layoutgen.random_ground_truth(rng)
        code = layoutgen.build(gt, rng)
        rs = []
        s0 = rng.getrandbits(48)
        for sd, fold in ((s0, None), (rng.getrandbits(48), None), (s0, {"mode": "sorted", "seed": 0}), (s0, {"mode": "reversed", "seed": 0})):
            req = {"op": "analyze", "code": code.hex(), "stage": "analyze", "wd": {"every": 1, "stop_at": BUDGET}, "rand_seed": sd}
            if fold:
                req["fold"] = fold
            rs.append(d.call(req, timeout=300))
        judge(res, gt, code, rs[0], rs[1], rs[2:])
        if i < 1:
            res.sample({"ground_truth": strip_public(gt), "code": code.hex(), "layout": rs[0].get("layout")})
    d.stop()
    return res.to_dict()


def run(tier, seed, t0):
    res = common.Result.merge(common.run_sharded(shard, seed, tier))
    return common.finish(
        PROP, tier, seed, res, "exploration",
        "ground-truth layouts of 1-12 variables (plain word, address-masked word, mapping of depth 1-4 with word/address "
        "keys and values, dynamic array, word packed into 2-6 byte-aligned fields) at arbitrary slots in arbitrary "
        "order, each read, written or both from separate selector-dispatch branches; idioms exactly as documented by "
        "the lifting passes. distinct = (ground truth, access modes); non-trivial = at least two variables. Slots whose "
        "entries differ between the two hash seeds are counted, not judged (that is C02).",
        t0, ["only hand-emitted idioms (no optimiser-reshaped code); field writes position the value with MUL 2^k",
             "types of unmasked values are not compared"], min_judged=100)


def replay(path):
    case = json.load(open(path))["case"]
    res = common.Result()
    d = common.Driver("rel", shim=True)
    rs = [d.call({"op": "analyze", "code": case["code"], "stage": "analyze", "wd": {"every": 1, "stop_at": BUDGET},
                  "rand_seed": k + 1}, timeout=300) for k in range(2)]
    rs += [d.call({"op": "analyze", "code": case["code"], "stage": "analyze", "wd": {"every": 1, "stop_at": BUDGET},
                   "rand_seed": 1, "fold": {"mode": m, "seed": 0}}, timeout=300) for m in ("sorted", "reversed")]
    d.stop()
    gt = case["ground_truth"]
    for var, m in zip(gt, case["modes"]):
        var["_mode"] = m
        if "fields" in var:
            var["fields"] = [tuple(f) for f in var["fields"]]
    judge(res, gt, bytes.fromhex(case["code"]), rs[0], rs[1], rs[2:])
    print(json.dumps(rs[0].get("layout"))[:1500])
    for v in res.violations:
        print("VIOLATION-REPLAY", v["signature"], v["what"])
    return 1 if res.violations else 0
