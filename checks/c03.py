"""C03 - analysis always halts, and execution stays within the configured bounds.

Monitor: (a) the VM is driven through its public API under a step-counting watchdog; hook events give, for every
executed instruction, the per-thread visit count and the gas consumed so far, and every fork; after the run the visit
counters, conditional-jump counters and the number of stored states are read back through the public API. Checked
online: visit count <= iteration limit, forks per target <= fork limit, threads <= 1 + F*J, no step with
gas_before > gas_limit, and the run ends within the step bound those limits imply. (b) the whole pipeline is run
under a poll-counting watchdog; unification must finish within R_max rounds (bounded restatement of "always halts").
"""
import json

from vlib import common, evm, progs

PROP = "C03"
PROFILES = ("rel",)
COPY_OPS = {0x37, 0x39, 0x3c, 0x3e, 0xf1, 0xf2, 0xf4, 0xfa}
# CPU-seconds the analysis may burn without one watchdog poll (interval 1) or hook event before it is judged not to
# halt. Calibrated: over the whole workload on the unchanged tree the largest such gap is reported in the evidence
# (max_cpu_gap_ms, a few milliseconds); the threshold is three to four orders of magnitude above it and is measured
# in CPU time of the driver process, so machine load cannot trip it.
STALL_CPU_S = 30.0


def step_bound(code, cfg):
    kinds = evm.disasm_ref(code)
    J = sum(1 for k in kinds if k == "J")
    n = len(code)
    L = cfg["iters"]
    F = cfg["forks"]
    threads = 1 + F * J
    copies = sum(1 for i, k in enumerate(kinds) if k == "O" and code[i] in COPY_OPS)
    # each thread executes each instruction at most L times (+1 for the first instruction of a forked thread, which
    # is not what the property allows but must not make the *bound* unsound); every execution of a copy opcode adds at
    # most 768 polled iterations (24 576 bytes, the largest clamp any of them applies)
    per_thread = (L + 1) * (n + 768 * copies)
    return threads, J, threads * per_thread + 1000


def rounds_bound(first_round_tyvars):
    return 64 + 4 * first_round_tyvars


def judge_vm(res, code, cfg, feats, r):
    case = {"code": code.hex(), "cfg": cfg}
    cls = r.get("class")
    if cls in ("timeout", "oom", "harness_error", "crash", "panic"):
        res.inconc("vm:driver:%s" % cls)
        return False
    res.judged += 1
    mon = r["mon"]
    L, F, G = cfg["iters"], cfg["forks"], cfg["gas"]
    threads_max, J, bound = step_bound(code, cfg)
    for f in feats:
        res.count("feat:" + f)
    res.counters["max_steps"] = max(res.counters.get("max_steps", 0), mon["steps"])
    res.counters["max_threads"] = max(res.counters.get("max_threads", 0), mon["threads_created"])
    res.count("steps", mon["steps"])
    res.count("forks", mon["forks"])
    if mon["retire_out_of_gas"]:
        res.count("runs_with_out_of_gas")
    if mon["max_visits"] >= L:
        res.count("runs_reaching_visit_limit")
    if any(c >= F for _, c in mon["forks_to"]):
        res.count("runs_reaching_fork_limit")
    if mon["forks"] or mon["max_visits"] > 1:
        res.nontriv(code.hex() + json.dumps(cfg, sort_keys=True))
    stopped = any(e["kind"] == "StoppedByWatchdog" for e in r.get("vm_errors", []))
    if stopped or (cls == "err" and any(e.get("kind") == "StoppedByWatchdog" for e in r.get("errors", []))):
        res.violation("c03:vm-exceeds-step-bound",
                      "VM still running after %d polls (bound %d for %d threads max)" % (mon["polls"], bound, threads_max), case)
        return True
    # (i) visit counts
    api_max = r["visits"]["max_visit_count"]
    if mon["max_visits"] > L or api_max > L:
        first_of_fork = "unknown"
        res.violation("c03:visit-limit-exceeded:by-%d" % (max(mon["max_visits"], api_max) - L),
                      "instruction at %d executed %d times on one thread (limit %d; API reports %d at %d)" % (
                          mon["max_visits_at"], mon["max_visits"], L, api_max, r["visits"]["max_visit_at"]), case)
        return True
    # (ii) forks per target
    for t, c in mon["forks_to"]:
        if c > F:
            res.violation("c03:fork-limit-exceeded", "target %d forked to %d times (limit %d)" % (t, c, F), case)
            return True
    for t, c in r.get("cond_jump_counts", []):
        if c > F:
            res.violation("c03:fork-limit-exceeded:api", "cond_jump_count(%d)=%d (limit %d)" % (t, c, F), case)
            return True
    ev = dict((t, c) for t, c in mon["forks_to"])
    api = dict((t, c) for t, c in r.get("cond_jump_counts", []))
    if ev != api:
        res.violation("c03:fork-counter-disagrees", "fork events %s vs cond_jump_count %s" % (ev, api), case)
        return True
    # (ii-b) every single fork decision, judged by the in-driver monitor from its own per-thread visit counts and
    # per-target fork counts: no fork once either limit is reached (the converse - a fork refused although both limits
    # allow it - is C08's business and is reported there)
    res.count("fork_decisions_checked", mon.get("fork_decisions", 0))
    for m in mon.get("fork_mismatches", []):
        if not m["expected"] and m["actual"]:
            res.violation("c03:fork-beyond-limits",
                          "JUMPI at %d forked to %d although the thread had visited the target %d times (limit %d) and it had "
                          "been forked to %d times (limit %d)" % (m["ip"], m["target"], m["thread_visits_of_target"], L,
                                                                 m["forks_to_target"], F), case)
            return True
    # (iii) threads
    states = r["visits"]["states"]
    if states > threads_max or mon["threads_created"] > threads_max:
        res.violation("c03:too-many-threads", "%d threads for F=%d and %d JUMPDESTs" % (states, F, J), case)
        return True
    if r.get("remaining_threads", 0) == 0 and states != mon["threads_created"]:
        res.violation("c03:thread-accounting", "%d stored states but %d threads created" % (states, mon["threads_created"]), case)
        return True
    # (iv) gas
    if mon["max_gas_before"] > G:
        res.violation("c03:step-after-gas-limit", "an instruction was executed with %d gas already consumed (limit %d)" % (
            mon["max_gas_before"], G), case)
        return True
    # the same bound on the monitor's own books: gas inherited at the fork (by our accounting) + gas consumed since
    if mon.get("max_gas_accounted", 0) > G:
        res.violation("c03:step-after-gas-limit:independent-accounting",
                      "by the monitor's own accounting a thread executed an instruction after consuming %d gas along its path "
                      "(limit %d), although the thread's own counter never exceeded %d: gas not inherited on fork?" % (
                          mon["max_gas_accounted"], G, mon["max_gas_before"]), case)
        return True
    # and on the opcodes themselves: the declared minimum costs of the instructions executed along the path
    if mon.get("max_opgas_before", 0) > G:
        res.violation("c03:step-after-gas-limit:opcode-accounting",
                      "the instructions executed along one path before the step at %d have a declared minimum cost of %d "
                      "(limit %d), although the thread's own counter never exceeded %d: an instruction under-charged?" % (
                          mon.get("max_opgas_at", -1), mon["max_opgas_before"], G, mon["max_gas_before"]), case)
        return True
    if mon.get("max_opgas_before", 0) > 0:
        res.count("runs_with_opcode_gas_accounting")
    return False


def divergence_kind(d, req):
    """Re-runs a diverging analysis (same hash seed) recording the evidence folded in the last rounds: the recorded
    finding is the one where every multi-evidence fold of the tail involves a packed encoding."""
    r = d.call(dict(req, observe=["class_folds"]), timeout=600)
    tail = r.get("class_folds_tail") or r.get("class_folds") or []
    tail = tail[-200:]
    if not tail:
        return "no-fold-trace"
    if all(any(e.startswith("Packed") for e in f["evidence"]) for f in tail):
        return "packed-evidence"
    return "non-packed-evidence"


def judge_full(res, code, cfg, r, d=None, req=None):
    case = {"code": code.hex(), "cfg": cfg, "full": True, "rand_seed": (req or {}).get("rand_seed")}
    cls = r.get("class")
    if cls == "crash":
        # the process died inside the analysis (e.g. unbounded recursion overflowing the stack): it did not halt
        res.violation("c03:analysis-crashed:%s" % r.get("signal"), "the analysis process died: %s" % json.dumps(r)[:200], case)
        return
    if cls == "stall":
        res.violation("c03:spinning-without-a-poll",
                      "the analysis consumed %.0f CPU-seconds without reaching a single watchdog poll (interval 1) or hook event, "
                      "after %d such events; the same program's symbolic execution alone finished within its step bound" % (
                          r.get("cpu_s_without_progress", 0), r.get("progress_events", 0)), case)
        return
    if cls in ("timeout", "oom", "harness_error", "panic"):
        res.inconc("full:driver:%s" % cls)
        return
    mon = r["mon"]
    res.counters["max_cpu_gap_ms"] = max(res.counters.get("max_cpu_gap_ms", 0), int(1000 * r.get("max_cpu_gap_s", 0)))
    res.count("runs_under_the_stall_detector")
    res.counters["max_rounds"] = max(res.counters.get("max_rounds", 0), mon["round_count"])
    rounds = mon["rounds"]
    res.count("full_runs")
    if rounds:
        rb = rounds_bound(rounds[0][0])
        grew = sum(1 for a, b in zip(rounds, rounds[1:]) if b[0] > a[0])
        if mon["round_count"] > rb:
            tail = rounds[-30:]
            growing = all(b[0] > a[0] for a, b in zip(tail, tail[1:]))
            kind = divergence_kind(d, req) if d is not None else "unknown"
            res.violation("c03:unify-rounds-exceed-bound:%s" % kind,
                          "unification ran %d rounds (bound %d); type variables %d -> %d" % (
                              mon["round_count"], rb, rounds[0][0], rounds[-1][0]), case)
            return
        if grew:
            res.count("runs_with_tyvar_growth")
    stopped = cls == "err" and any(e.get("kind") == "StoppedByWatchdog" for e in r.get("errors", []))
    if stopped:
        # poll budget hit without the round bound being exceeded: our budget was too tight -> inconclusive
        res.inconc("full:poll-budget-hit")


def shard(shard_no, nshards, seed, tier, extra):
    res = common.Result()
    rng = common.rng_for(seed, "c03", shard_no)
    n = 450 if tier == "quick" else 20000
    d = common.Driver("rel", shim=True)
    for i in range(n):
        r = rng.random()
        if r < 0.08:
            # boundary constants in every sink position: sizes and offsets of the bulk copies, hashes, calls, logs
            code, feats = progs.sinks(rng, evm.boundary_constants())
            feats = set(feats) | {"shape:sinks"}
        elif r < 0.16:
            code, feats = progs.cyclic_types(rng)
        elif r < 0.28:
            # hostile constants in the operand shapes the lifting passes match on
            code, feats = progs.lift_shapes(rng, evm.boundary_constants())
        elif r < 0.7:
            code, feats = progs.loopy(rng)
        elif r < 0.85:
            code, feats = progs.read_mask_write(rng)
        else:
            code, feats, _ = progs.controlflow(rng, underflow_p=0.05, symbolic_p=0.1)
            feats = set(feats) | {"shape:forward-only"}
        cfg = {"iters": rng.randint(1, 12), "forks": rng.choice([1, 2, 3, 5, 10, 25, 50, 60]),
               "gas": rng.choice([300, 500, 1000, 5000, 21000, 100000, 30_000_000]),
               "permissive": rng.random() < 0.5}
        res.evaluations += 1
        threads_max, J, bound = step_bound(code, cfg)
        req = {"op": "analyze", "code": code.hex(), "direct_vm": True, "cfg": cfg, "observe": ["forks"],
               "wd": {"every": 1, "stop_at": bound}}
        rv = d.call(req, timeout=300)
        bad = judge_vm(res, code, cfg, feats, rv)
        if not bad and rv.get("class") in ("ok", "err"):
            steps = rv["mon"]["steps"]
            budget = bound + 3000 * (steps + 200)
            freq = {"op": "analyze", "code": code.hex(), "stage": "analyze", "cfg": dict(cfg, permissive=True),
                    "wd": {"every": 1, "stop_at": budget}, "rand_seed": rng.getrandbits(48), "stall_cpu_s": STALL_CPU_S}
            rf = d.call(freq, timeout=300)
            judge_full(res, code, cfg, rf, d, freq)
        if i < 2:
            res.sample({"code": code.hex(), "cfg": cfg, "features": sorted(feats), "steps": rv.get("mon", {}).get("steps"),
                        "threads": rv.get("mon", {}).get("threads_created")})
    d.stop()
    return res.to_dict()


def run(tier, seed, t0):
    res = common.Result.merge(common.run_sharded(shard, seed, tier))
    return common.finish(
        PROP, tier, seed, res, "exploration",
        "control-flow shapes (tight self-loops, nested loops, two JUMPDESTs above a fork target, jump tables, "
        "stack-growing loops, fork bombs with shared targets, gas burners, random jump graphs, forward-only programs "
        "with bad targets), programs with boundary constants as sizes / offsets of bulk copies, hashes, calls and logs, storage read-mask-write programs and container-cyclic storage evidence (an array / mapping "
        "element receiving its own slot's value, through 1-2 slots and 1-2 nesting levels), hostile constants (0, 1, non-powers of two, 2^255, 2^256-1) in the "
        "operand shapes the lifting passes match on (x OP c / c OP x under masks and further operations) x iteration limit 1..12 x fork limit 1..60 x gas limit "
        "300..30M x strict/permissive. distinct = (bytecode, config); non-trivial = at least one fork or a repeated "
        "instruction. Halting is decided on logical steps (watchdog polls), never wall-clock.",
        t0, ["'always halts' is restated as: the VM ends within (1+F*J)*(L+1)*(n + 768*copy opcodes) polls and unification "
             "within 64+4*V rounds (V = type variables after the first round)",
             "a poll budget hit that is not explained by either bound is inconclusive",
             "a stage that spins is judged by CPU time without progress (%.0f CPU-seconds of the driver process without one "
             "watchdog poll at interval 1 or hook event), never by wall-clock; a plain wall-clock timeout stays inconclusive" % STALL_CPU_S], min_judged=200)


def replay(path):
    case = json.load(open(path))["case"]
    res = common.Result()
    code = bytes.fromhex(case["code"])
    cfg = case["cfg"]
    d = common.Driver("rel", shim=True)
    threads_max, J, bound = step_bound(code, cfg)
    if case.get("full"):
        freq = {"op": "analyze", "code": code.hex(), "stage": "analyze", "cfg": dict(cfg, permissive=True),
                "wd": {"every": 1, "stop_at": 3_000_000}, "rand_seed": case.get("rand_seed") or 1, "stall_cpu_s": STALL_CPU_S}
        rf = d.call(freq, timeout=600)
        judge_full(res, code, cfg, rf, d, freq)
    else:
        rv = d.call({"op": "analyze", "code": code.hex(), "direct_vm": True, "cfg": cfg,
                     "wd": {"every": 1, "stop_at": bound}}, timeout=300)
        judge_vm(res, code, cfg, set(), rv)
    d.stop()
    for v in res.violations:
        print("VIOLATION-REPLAY", v["signature"], v["what"])
    return 1 if res.violations else 0
