"""C14 - unification ends with one equality-free type per variable and honours equalities.

Monitor: random judgement sets are loaded into a fresh real TypeCheckerState (through register / infer), the real
`unification::unify` runs under a poll-counting watchdog, and the driver dumps find(v) and get_data(v) for every type
variable (including those allocated during unification). Python checks: termination within the round bound, exactly
one expression per variable and no leftover equality, variables equal in the reflexive-transitive closure of the
declared equalities share root and type, and - for classes that did not resolve to a conflict - same-constructor
evidence has unified components.
"""
import json

from vlib import common, uf

PROP = "C14"
PROFILES = ("rel",)
WIDTHS = [None, 8, 32, 160, 192, 256]


def rand_expr(rng, n, allow_packed=True, allow_eq=True):
    r = rng.random()
    v = lambda: rng.randrange(n)
    if r < 0.22 and allow_eq:
        return ["eq", v()]
    if r < 0.50:
        usage = rng.choice(uf.USAGES)
        width = uf.FIXED_WIDTH.get(usage) if usage in uf.FIXED_WIDTH else rng.choice(WIDTHS)
        return ["word", width, usage]
    if r < 0.56:
        return "bytes"
    if r < 0.60:
        return "any"
    if r < 0.72:
        return ["map", v(), v()]
    if r < 0.80:
        return ["dyn", v()]
    if r < 0.86:
        return ["fixed", v(), rng.choice(["0x1", "0x2", "0x3", "0xffffffffffffffffffffffffffffffff"])]
    if allow_packed:
        k = rng.randrange(0, 4)
        spans = []
        for _ in range(k):
            style = rng.random()
            if style < 0.7:
                off = 8 * rng.randrange(0, 32)
                size = rng.choice([8, 16, 32, 64, 160, 256 - off if off < 256 else 8])
            else:
                off = rng.choice([0, 1, 7, 255, 256, 300])
                size = rng.choice([0, 1, 7, 8, 248, 256])
            spans.append([v(), off, size])
        return ["packed", rng.random() < 0.2] + spans
    return ["word", None, "numeric"]


def gen_set(rng):
    n = rng.randint(2, 40)
    style = rng.choice(["mixed", "mixed", "no-packed", "cyclic", "equalities", "constructors"])
    js = []
    m = rng.randint(1, 3 * n)
    for _ in range(m):
        var = rng.randrange(n)
        if style == "equalities":
            e = ["eq", rng.randrange(n)] if rng.random() < 0.7 else rand_expr(rng, n, allow_packed=False)
        elif style == "constructors":
            e = rng.choice([["map", rng.randrange(n), rng.randrange(n)], ["dyn", rng.randrange(n)],
                            ["fixed", rng.randrange(n), "0x2"], ["eq", rng.randrange(n)]])
        elif style == "cyclic":
            e = rng.choice([["map", rng.randrange(n), var], ["dyn", var], ["eq", rng.randrange(n)],
                            ["packed", False, [var, 0, 8]] if rng.random() < 0.3 else ["fixed", var, "0x1"],
                            rand_expr(rng, n, allow_packed=False)])
        else:
            e = rand_expr(rng, n, allow_packed=(style != "no-packed"))
        js.append([var, e])
    return n, js, style


def has_packed(js):
    return any(uf.kind(e) == "packed" for _, e in js)


def divergence_kind(d, req):
    if d is None:
        return "unknown"
    r = d.call(dict(req, observe_folds=True), timeout=300)
    tail = (r.get("mon", {}).get("folds_tail") or [])[-200:]
    if not tail:
        return "no-fold-trace"
    if all(any(e.startswith("Packed") for e in f["evidence"]) for f in tail):
        return "packed-evidence"
    return "non-packed-evidence"


def judge(res, n, js, style, r, d=None, req=None):
    res.evaluations += 1
    case = {"nvars": n, "judgements": js}
    cls = r.get("class")
    if cls in ("timeout", "oom", "harness_error", "crash"):
        res.inconc("driver:%s" % cls)
        return
    res.judged += 1
    res.count("style:" + style)
    res.nontriv(common.sha(case))
    if cls == "panic":
        res.violation("c14:panic:%s:%s" % ((r.get("file") or "?").split("/")[-1], r.get("line")), r.get("msg"), case)
        return
    mon = r.get("mon", {})
    res.counters["max_rounds"] = max(res.counters.get("max_rounds", 0), mon.get("round_count", 0))
    if cls == "err":
        if r.get("stopped"):
            sig = "c14:does-not-terminate:%s" % divergence_kind(d, req)
            res.violation(sig, "unify still running after %d rounds / %d polls" % (mon.get("round_count", 0), mon.get("polls", 0)), case)
        else:
            res.violation("c14:error", r.get("error", "")[:200], case)
        return
    vars_ = r["vars"]
    total = r["total_vars"]
    res.count("type_vars_after", total)
    # (b) exactly one equality-free expression per variable
    for i, (root, data) in enumerate(vars_):
        if data is None:
            res.violation("c14:no-data", "variable %d has no resolved data" % i, case)
            return
        if len(data) > 1:
            res.violation("c14:several-expressions", "variable %d resolves to %d expressions: %s" % (i, len(data), json.dumps(data)[:200]), case)
            return
        if data and uf.kind(data[0]) == "eq":
            res.violation("c14:leftover-equality", "variable %d still carries %s" % (i, data[0]), case)
            return
    # (c) declared equalities
    eqs = uf.UF(n)
    for v, e in js:
        if uf.kind(e) == "eq":
            eqs.union(v, e[1])
    for root, members in eqs.classes().items():
        roots = {vars_[m][0] for m in members}
        if len(roots) > 1:
            res.violation("c14:equal-variables-different-roots", "variables %s were declared equal but have roots %s" % (members, sorted(roots)), case)
            return
        types = {json.dumps(vars_[m][1]) for m in members}
        if len(types) > 1:
            res.violation("c14:equal-variables-different-types", "variables %s declared equal resolve to %s" % (members, sorted(types)[:3]), case)
            return
    # (d) constructors meeting in a non-contradictory class unify their components
    by_root = {}
    for v, e in js:
        by_root.setdefault(vars_[v][0], []).append(e)
    for root, evs in by_root.items():
        data = vars_[root][1]
        if data and uf.kind(data[0]) == "conflict":
            res.count("conflicted_classes")
            continue
        for k, idxs in (("map", (1, 2)), ("dyn", (1,)), ("fixed", (1,))):
            # only where the class resolved to that very constructor: there the judgements did meet (a class that
            # resolved to e.g. dynamic bytes absorbed its arrays without comparing them - that is C15/C16's business)
            if not data or uf.kind(data[0]) != k:
                continue
            group = [e for e in evs if uf.kind(e) == k]
            if k == "fixed":
                lens = {e[2] for e in group}
                if len(lens) > 1:
                    continue
            for a, b in zip(group, group[1:]):
                for ix in idxs:
                    if vars_[a[ix]][0] != vars_[b[ix]][0]:
                        res.violation("c14:components-not-unified:%s" % k,
                                      "class of %d resolves to %s, but components %d and %d of two %s judgements have different roots" % (
                                          root, json.dumps(data)[:80], a[ix], b[ix], k), case)
                        return
        res.count("classes_checked")


def judge_layout(res, n, js, slots, lr):
    """Judgement sets that unify cleanly must also resolve: building the layout terminates (cyclic types are cut)
    without crashing."""
    res.evaluations += 1
    case = {"nvars": n, "judgements": js, "slots": slots, "layout_level": True}
    cls = lr.get("class")
    if cls in ("timeout", "oom", "harness_error"):
        res.inconc("layout:%s" % cls)
        return
    res.judged += 1
    res.count("layout_level_cases")
    if cls in ("crash", "panic"):
        res.violation("c14:layout:%s" % (("crash:signal-%s" % lr.get("signal")) if cls == "crash" else
                                          "panic:%s:%s" % ((lr.get("file") or "?").split("/")[-1], lr.get("line"))),
                      "resolving the types of the bound slots did not return: %s" % json.dumps(lr)[:200], case)
        return
    if cls == "err":
        kinds = lr.get("kinds") or []
        if "StoppedByWatchdog" in kinds:
            # the poll budget is spent by the unification inside TypeChecker::unify (layout building itself polls once
            # per slot): whether unification terminates is judged - and attributed to the recorded packed-evidence
            # finding where it applies - at the unify level above, under that run's own order; here it is inconclusive
            res.inconc("layout:unification-hit-the-poll-budget")
        else:
            res.count("layout_level_errors:%s" % ",".join(sorted(set(kinds)))[:60])
        return
    got = {int(e["index"], 16) for e in lr.get("layout", [])}
    missing = [s for s, _ in slots if int(s, 16) not in got]
    if missing:
        # not demanded here: hostile packed spans (offset >= 256) are legitimately dropped from the layout
        res.count("layout_level_slots_without_entry", len(missing))
    if any("infinite_type" in json.dumps(e.get("type")) for e in lr.get("layout", [])):
        res.count("layouts_with_cut_cycles")


def shard(shard_no, nshards, seed, tier, extra):
    res = common.Result()
    rng = common.rng_for(seed, "c14", shard_no)
    n_cases = 1500 if tier == "quick" else 150000
    d = common.Driver("rel", shim=True)
    for i in range(n_cases):
        n, js, style = gen_set(rng)
        req = {"op": "unify", "nvars": n, "judgements": js, "budget": 200_000, "rand_seed": rng.getrandbits(48)}
        r = d.call(req, timeout=120)
        judge(res, n, js, style, r, d, req)
        if rng.random() < 0.25 and r.get("class") == "ok":
            # the same judgement set seen by the whole type checker: a few of the variables are the values of constant
            # storage slots, and the real TypeChecker::unify resolves their types and builds the layout
            k = rng.randint(1, min(3, n))
            slots = [["0x%x" % (5 + si), rng.randrange(n)] for si in range(k)]
            lr = d.call({"op": "tc_layout", "nvars": n, "judgements": js, "slots": slots, "budget": 400_000,
                         "rand_seed": rng.getrandbits(48)}, timeout=120)
            judge_layout(res, n, js, slots, lr)
        if i < 2:
            res.sample({"nvars": n, "judgements": js[:12], "result_vars": (r.get("vars") or [])[:6]})
    d.stop()
    return res.to_dict()


def run(tier, seed, t0):
    res = common.Result.merge(common.run_sharded(shard, seed, tier))
    return common.finish(
        PROP, tier, seed, res, "exploration",
        "random judgement sets over 2..40 type variables: equalities, words of all usages x widths, dynamic bytes, Any, "
        "mappings, fixed and dynamic arrays, packed encodings with overlapping / unsorted / zero-size / out-of-word spans, "
        "cyclic references (mapping<k, self>, array<self>, packed[self]); styles mixed / no-packed / cyclic / "
        "equality-heavy / constructor-heavy; each under a fresh hash seed; a quarter of the sets that unify cleanly are also "
        "given to the whole TypeChecker with 1-3 of their variables bound to constant storage slots (types resolved, cycles "
        "cut, layout built). distinct = distinct judgement set (all are "
        "non-trivial: every set has at least one judgement)",
        t0, ["termination is decided on a poll budget of 200 000 class visits (bounded restatement)",
             "component unification is only demanded for classes that did not resolve to a conflict"], min_judged=500)


def replay(path):
    case = json.load(open(path))["case"]
    res = common.Result()
    d = common.Driver("rel", shim=True)
    if case.get("layout_level"):
        lr = d.call({"op": "tc_layout", "nvars": case["nvars"], "judgements": case["judgements"], "slots": case["slots"],
                     "budget": 400_000, "rand_seed": 1}, timeout=120)
        judge_layout(res, case["nvars"], case["judgements"], case["slots"], lr)
        d.stop()
        print(json.dumps(lr)[:800])
        for v in res.violations:
            print("VIOLATION-REPLAY", v["signature"], v["what"])
        return 1 if res.violations else 0
    req = {"op": "unify", "nvars": case["nvars"], "judgements": case["judgements"], "budget": 200_000, "rand_seed": 1}
    r = d.call(req, timeout=120)
    judge(res, case["nvars"], case["judgements"], "replay", r, d, req)
    d.stop()
    print(json.dumps(r)[:800])
    for v in res.violations:
        print("VIOLATION-REPLAY", v["signature"], v["what"])
    return 1 if res.violations else 0
