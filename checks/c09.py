"""C09 - simplifying a symbolic expression never changes what it denotes.

Monitor: Python builds value trees, the driver constructs them with the real constructors and calls the real
`constant_fold` (twice, for idempotence); Python compares the result (a) structurally with an independent reference
folder and (b) semantically under several valuations of the opaque leaves. Both build profiles.
"""
import json

from vlib import common, evm, treeeval as te

PROP = "C09"
PROFILES = ("rel", "dev")
BATCH = 1200


def leaf(i):
    return ["v", "00000000-0000-4000-8000-%012x" % i]


def boundary(tier, rng):
    base = {0, 1, 2, 255, 256, 257, 1 << 32, 1 << 64, 1 << 255, te.MASK, te.MASK - 1, (1 << 32) + 1, (1 << 32) - 1}
    ks = list(evm.BOUNDARY_K) + [9, 33, 65, 127, 129, 200, 254]
    if tier == "thorough":
        ks = list(range(7, 256))
    else:
        ks += [rng.randint(7, 255) for _ in range(4)]
    for k in ks:
        base.update({1 << k, (1 << k) - 1, ((1 << k) + 1) & te.MASK})
    base.update({te.SIGN, te.SIGN - 1, te.SIGN + 1, te.MASK})  # MIN, MAX, MIN+1, -1
    return sorted(base)


def operand_class(op, a, b):
    if op in ("shl", "shr", "sar"):
        return "shift>=256" if a >= 256 else "shift<256"
    if op == "exp":
        return "exponent>=2^32" if b >= (1 << 32) else "exponent<2^32"
    if op in ("div", "sdiv", "mod", "smod") and b == 0:
        return "zero-divisor"
    if op in ("sdiv", "smod") and a == te.SIGN and b == te.MASK:
        return "min-by-minus-one"
    return "general"


def rand_word(rng, B):
    r = rng.random()
    if r < 0.6:
        return rng.choice(B)
    if r < 0.8:
        return rng.getrandbits(256)
    return rng.getrandbits(rng.choice([8, 16, 64, 128]))


# every non-foldable constructor the value type has: tag -> number of children (None = variadic)
NONFOLD = {"signext": 2, "sha3": 1, "balance": 1, "extcodehash": 1, "extcodesize": 1, "blockhash": 1, "codecopy": 2,
           "extcodecopy": 3, "returndata": 2, "return": 1, "revert": 1, "selfdestruct": 1, "unwritten": 1, "sload": 2,
           "slot": 1, "swrite": 2, "concat": None, "mapix": 2, "dynix": 2, "subword": 1, "shifted": 1, "callv": 6,
           "call": 5, "log": None, "create": 2, "create2": 3, "cd": 2, "packed": None}
NULLARY = ["address", "origin", "caller", "callvalue", "gasprice", "coinbase", "timestamp", "number", "prevrandao",
           "gaslimit", "chainid", "selfbalance", "basefee", "gas", "calldatasize"]


def nonfold_node(rng, tag, kid):
    """Builds a node with constructor `tag`; kid() supplies each child."""
    n = NONFOLD[tag]
    if tag == "packed":
        k = rng.randint(1, 3)
        width = 256 // k
        return ["packed"] + [[i * width, rng.choice([8, width]), kid()] for i in range(k)]
    if n is None:
        n = rng.randint(1, 4)
    node = [tag]
    if tag == "cd":
        node.append("00000000-0000-4000-9000-%012x" % rng.randrange(4))
    node += [kid() for _ in range(n)]
    if tag == "mapix":
        node.append({"proj": rng.choice([None, 0, 1, 7])})
    elif tag == "subword":
        node.append({"off": rng.choice([0, 8, 160]), "size": rng.choice([8, 64, 96])})
    elif tag == "shifted":
        node.append({"off": rng.choice([0, 8, 160])})
    return node


def rand_tree(rng, B, depth, nleaves):
    r = rng.random()
    if depth == 0 or r < 0.15:
        q = rng.random()
        if q < 0.5:
            return te.const(rand_word(rng, B))
        if q < 0.9:
            return leaf(rng.randrange(nleaves))
        return [rng.choice(NULLARY)]
    if r < 0.3:
        # a non-foldable node (any constructor)
        tag = rng.choice(sorted(NONFOLD))
        return nonfold_node(rng, tag, lambda: rand_tree(rng, B, depth - 1, nleaves))
    op = rng.choice(sorted(te.FOLDABLE))
    if op in te.UN:
        return [op, rand_tree(rng, B, depth - 1, nleaves)]
    return [op, rand_tree(rng, B, depth - 1, nleaves), rand_tree(rng, B, depth - 1, nleaves)]


def valuations(rng, names, B):
    names = sorted(names)
    vals = [
        {n: 0 for n in names},
        {n: te.MASK for n in names},
        {n: rng.choice(B) for n in names},
        {n: rng.getrandbits(256) for n in names},
        {n: rng.choice([1, 2, 255, 256, 1 << 255]) for n in names},
    ]
    return vals


def judge(res, kind, tree, info, r, profile, rng, B):
    res.evaluations += 1
    case = {"tree": tree, "profile": profile, "kind": kind}
    root = tree[0]
    cls = r.get("class")
    if cls == "panic":
        res.judged += 1
        res.violation("fold:panic:%s:%s" % ("/".join(r.get("file", "?").split("/")[-2:]), r.get("line")),
                      "%s at %s:%s" % (r.get("msg"), r.get("file"), r.get("line")), case)
        return
    if cls != "ok":
        res.inconc("driver:%s" % cls)
        return
    res.judged += 1
    out = r["results"][0]
    got = out["folded"]
    want = te.fold_ref(tree)
    if kind != "const" or info != "general":
        res.nontriv(common.sha(tree))
    res.count("kind:%s" % kind)
    if kind == "big":
        res.counters["max_tree_nodes"] = max(res.counters.get("max_tree_nodes", 0), out.get("in_count", 0))
        if out.get("in_count", 0) > 250:
            res.count("trees_over_250_nodes")
    if kind == "variant":
        res.count("constructor:%s" % info)
    res.count("op:%s" % root)
    if out["size"] != out["count"]:
        res.violation("fold:size:%s" % root, "folded value reports size %d, has %d nodes" % (out["size"], out["count"]), case)
    if not out.get("tc_same", True):
        res.violation("fold:typed-tree-differs:%s" % root, "the same tree folds differently once every node carries a type variable: "
                      "%s vs %s" % (json.dumps(out.get("tc_folded"))[:160], json.dumps(got)[:160]), case)
        return
    if not out["idempotent"]:
        res.violation("fold:idempotent:%s" % root, "fold(fold(t)) != fold(t): %s" % json.dumps(out["twice"])[:200], case)
    if got != want:
        if kind == "const":
            sig = "fold:const:%s:%s" % (root, info)
            what = "folds to %s, EVM result %s" % (got[1] if got[0] == "k" else got[0], want[1])
        elif kind == "variant":
            sig = "fold:constructor:%s:%s" % (info, first_diff(want, got))
            what = "reference %s library %s" % (json.dumps(want)[:200], json.dumps(got)[:200])
        elif kind == "one-opaque":
            sig = "fold:rebuild:%s->%s" % (root, got[0])
            what = "operator %s with an opaque operand came back as %s" % (root, json.dumps(got)[:160])
        else:
            # find the first differing node for a stable signature
            sig = "fold:structure:%s" % first_diff(want, got)
            what = "reference %s library %s" % (json.dumps(want)[:200], json.dumps(got)[:200])
        res.violation(sig, what, case)
        return
    # semantic check under several valuations
    names = te.leaf_names(tree)
    for rho in valuations(rng, names, B):
        a = te.evaluate(tree, lambda n: rho[n])
        b = te.evaluate(got, lambda n: rho[n])
        if a != b:
            res.violation("fold:semantic:%s" % root, "value changes under valuation %s" % {k[-3:]: hex(v) for k, v in rho.items()}, case)
            break


def first_diff(want, got):
    if want == got:
        return "same"
    if not isinstance(want, list) or not isinstance(got, list):
        return "payload"
    if not isinstance(want[0], str):
        return "packed-span" if want[:2] != got[:2] else first_diff(want[2], got[2])
    if want[0] != got[0]:
        return "%s->%s" % (want[0], got[0])
    if want[0] in ("k", "v"):
        return "%s-value" % want[0] if want != got else "same"
    for w, g in zip(want[1:], got[1:]):
        d = first_diff(w, g)
        if d != "same":
            return d
    if len(want) != len(got):
        return "%s-arity" % want[0]
    return "same"


def gen(shard_no, nshards, seed, tier):
    rng = common.rng_for(seed, "c09", shard_no)
    B = boundary(tier, common.rng_for(seed, "c09-boundary"))
    idx = 0
    small = [0, 1, 2, 255, 256, 257, 1 << 32, (1 << 32) + 1, 1 << 64, 1 << 255, te.MASK, te.SIGN, te.SIGN + 1, 31, 32, 8]
    # (i) constants: op x B x B  (second operand from the reduced set when B is large)
    second = B if tier == "quick" else sorted(set(small + boundary("quick", common.rng_for(seed, "c09-b2"))))
    for op in sorted(te.FOLDABLE):
        if op in te.UN:
            for a in B:
                idx += 1
                if idx % nshards == shard_no:
                    yield "const", [op, te.const(a)], "general"
            continue
        for a in B:
            for b in second:
                idx += 1
                if idx % nshards == shard_no:
                    yield "const", [op, te.const(a), te.const(b)], operand_class(op, a, b)
                idx += 1
                if tier == "thorough" and idx % nshards == shard_no:
                    yield "const", [op, te.const(b), te.const(a)], operand_class(op, b, a)
    # (ii) exactly one opaque child, in either position
    for op in sorted(te.FOLDABLE):
        for a in small:
            idx += 1
            if idx % nshards != shard_no:
                continue
            if op in te.UN:
                yield "one-opaque", [op, leaf(0)], "opaque"
            else:
                yield "one-opaque", [op, te.const(a), leaf(0)], "opaque-right"
                yield "one-opaque", [op, leaf(0), te.const(a)], "opaque-left"
                yield "one-opaque", [op, leaf(0), leaf(1)], "opaque-both"
    # (ii-b) every non-foldable constructor: opaque children; one child a foldable constant expression (each position);
    # nested under a foldable operator. Folding must keep the constructor, its payload and the child positions.
    for tag in sorted(NONFOLD):
        for variant in range(6):
            idx += 1
            if idx % nshards != shard_no:
                continue
            cnt = [0]

            def kid():
                cnt[0] += 1
                if variant == 0:
                    return leaf(cnt[0] % 3)
                if cnt[0] - 1 == (variant - 1) % 3 or variant == 5:
                    return ["add", te.const(rng.choice(small)), te.const(rng.choice(small))]
                return leaf(cnt[0] % 3) if variant < 4 else [rng.choice(NULLARY)]
            node = nonfold_node(rng, tag, kid)
            yield "variant", node, tag
            yield "variant", ["add", node, ["mul", te.const(3), te.const(5)]], tag
    for tag in NULLARY:
        idx += 1
        if idx % nshards == shard_no:
            yield "variant", [tag], tag
            yield "variant", ["sub", [tag], ["add", te.const(1), te.const(2)]], tag
    # (ii-c) big trees: hundreds to thousands of nodes (balanced, and combs whose teeth are small sub-trees), all
    # constant or with a single opaque leaf somewhere - sizes on both sides of the default value-size limit of 250
    def balanced(depth, ops, leafgen):
        if depth == 0:
            return leafgen()
        op = rng.choice(ops)
        if op in te.UN:
            return [op, balanced(depth - 1, ops, leafgen)]
        return [op, balanced(depth - 1, ops, leafgen), balanced(depth - 1, ops, leafgen)]
    safe_ops = ["add", "mul", "sub", "and", "or", "xor", "not", "div", "mod", "shl", "shr", "lt", "eq", "iszero"]
    for bi in range(24 if tier == "quick" else 400):
        idx += 1
        if idx % nshards != shard_no:
            continue
        shape = rng.choice(["balanced", "balanced", "comb"])
        opaque_at = [rng.random() < 0.4]

        def leafgen():
            if opaque_at[0] and rng.random() < 0.02:
                opaque_at[0] = False
                return leaf(0)
            return te.const(rng.choice(small))
        if shape == "balanced":
            t = balanced(rng.choice([6, 7, 7, 8, 8, 9]), safe_ops, leafgen)
        else:
            t = balanced(3, safe_ops, leafgen)
            for _ in range(rng.choice([20, 40, 60, 90])):
                t = [rng.choice(["add", "xor", "mul"]), t, balanced(rng.choice([1, 2, 3]), safe_ops, leafgen)] \
                    if rng.random() < 0.5 else [rng.choice(["add", "xor", "mul"]), balanced(rng.choice([1, 2, 3]), safe_ops, leafgen), t]
        yield "big", t, "big-%s" % shape
    # (iii) random trees
    n = (900 if tier == "quick" else 60000)
    for i in range(n):
        yield "tree", rand_tree(rng, B, rng.randint(2, 4), 3), "random"
    # (iv) random constant pairs
    for i in range(n):
        op = rng.choice(sorted(te.BIN))
        a, b = rand_word(rng, B), rand_word(rng, B)
        yield "const", [op, te.const(a), te.const(b)], operand_class(op, a, b)


def shard(shard_no, nshards, seed, tier, extra):
    res = common.Result()
    rng = common.rng_for(seed, "c09-judge", shard_no)
    B = boundary("quick", common.rng_for(seed, "c09-boundary"))
    drivers = {p: common.Driver(p, shim=False) for p in PROFILES}
    batch = []

    def flush():
        for profile, d in drivers.items():
            r = d.call({"op": "batch", "reqs": [{"op": "fold", "tree": t} for _, t, _ in batch]}, timeout=900)
            if r.get("class") != "ok":
                if r.get("class") == "crash":
                    res.violation("fold:crash:%s" % r.get("signal"), json.dumps(r)[:300],
                                  {"trees": [t for _, t, _ in batch][:20], "profile": profile})
                else:
                    res.inconc("batch:%s" % r.get("class"))
                continue
            for (kind, t, info), rr in zip(batch, r["results"]):
                judge(res, kind, t, info, rr, profile, rng, B)
        for kind, t, info in batch[:3]:
            res.sample({"kind": kind, "tree": t, "operand_class": info}, cap=6)
        batch.clear()

    for item in gen(shard_no, nshards, seed, tier):
        batch.append(item)
        if len(batch) >= BATCH:
            flush()
    if batch:
        flush()
    for d in drivers.values():
        d.stop()
    return res.to_dict()


def miri_requests(shard_no, nshards, seed):
    rng = common.rng_for(seed, "c09-miri", shard_no)
    B = boundary("quick", common.rng_for(seed, "c09-boundary"))
    ops = ["mul", "div", "sdiv", "mod", "smod", "exp", "shl", "shr", "sar", "add", "sub"]
    trees = []
    idx = 0
    # (sized for ~10 minutes per shard on an idle machine: every fold is done twice since the typed-tree fold was added)
    small = [0, 1, 2, 255, 256, 1 << 32, 1 << 64, 1 << 255, te.MASK, te.SIGN + 1, 8]
    for op in ops:
        for a in small:
            for b in small:
                idx += 1
                if idx % nshards == shard_no:
                    trees.append([op, te.const(a), te.const(b)])
    for _ in range(12):
        trees.append(rand_tree(rng, B, rng.randint(2, 4), 3))
    return [{"op": "batch", "reqs": [{"op": "fold", "tree": t} for t in trees[i:i + 40]]} for i in range(0, len(trees), 40)]


def run(tier, seed, t0):
    res = common.Result.merge(common.run_sharded(shard, seed, tier))
    if tier == "thorough":
        from vlib import sanitize
        m = sanitize.miri_layer(PROP, miri_requests, seed, tier)
        res = common.Result.merge([res.to_dict(), m.to_dict()])
    return common.finish(
        PROP, tier, seed, res, "exploration",
        "all 21 foldable operators x operand pairs from the boundary set (0,1,2,255..257,2^32,2^64,2^k and 2^k+-1 for "
        "k in the listed set [all of 7..255 in the thorough tier], MIN, MAX, -1) plus random words; every operator "
        "with one or two opaque operands in each position; random trees to depth 4 mixing constants, opaque leaves "
        "and non-foldable nodes, compared under 5 valuations; every tree is also folded in its type-checker form (each node annotated with a type variable) and must give the same result; balanced and comb-shaped trees of up to ~1000 nodes (all "
        "constant, or with one opaque leaf); rel and dev profiles. distinct = distinct tree; "
        "non-trivial = not a plain in-range constant pair (boundary operand class, opaque operand, or random tree)",
        t0, ["vlib/treeeval.py implements EVM word arithmetic correctly (Python big ints)",
             "non-arithmetic nodes are uninterpreted functions of their children"], min_judged=20000,
        exhaustive=False)


def replay(path):
    case = json.load(open(path))["case"]
    res = common.Result()
    rng = common.rng_for(1, "replay")
    B = boundary("quick", common.rng_for(1, "b"))
    d = common.Driver(case.get("profile", "rel"), shim=False)
    r = d.call({"op": "batch", "reqs": [{"op": "fold", "tree": case["tree"]}]})
    d.stop()
    rr = r["results"][0] if r.get("class") == "ok" else r
    info = "general"
    if case["kind"] == "const" and len(case["tree"]) == 3:
        info = operand_class(case["tree"][0], te.cval(case["tree"][1]), te.cval(case["tree"][2]))
    judge(res, case["kind"], case["tree"], info, rr, case.get("profile", "rel"), rng, B)
    print(json.dumps(rr)[:800])
    for v in res.violations:
        print("VIOLATION-REPLAY", v["signature"], v["what"])
    return 1 if res.violations else 0
